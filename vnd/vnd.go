// Package vnd is the nondeterminism API of the verification harnesses.
//
// Under the symbolic engine (symgo) every function of this package is
// intercepted by name and its body is never executed. Compiled natively (for
// replay of solver models against the real build) the functions read the
// recorded values from the replay case in order.
package vnd

import (
	"encoding/hex"
	"encoding/json"
	"fmt"
	"os"
	"runtime"
	"strconv"
)

// Value is one recorded input.
type Value struct {
	Name string `json:"name"`
	Kind string `json:"kind"`
	Val  string `json:"val"`
}

// Case is one replay case.
type Case struct {
	Entry  string  `json:"entry"`
	Inputs []Value `json:"inputs"`
	Expect string  `json:"expect"` // informational
}

// File is the replay file format.
type File struct {
	Property string         `json:"property"`
	Bounds   map[string]int `json:"bounds"`
	Cases    []Case         `json:"cases"`
}

type assertFailure struct{ label string }
type assumeFailure struct{}
type exhausted struct{ name string }

var (
	cur      []Value
	pos      int
	bounds   map[string]int
	allocLim int
	allocMem uint64
)

func next(name string) Value {
	if pos >= len(cur) {
		panic(exhausted{name})
	}
	v := cur[pos]
	pos++
	return v
}

func u64(name string) uint64 {
	v := next(name)
	if v.Kind == "bytes" || v.Kind == "string" {
		panic(fmt.Sprintf("vnd: input %q (%s) read as scalar %q", v.Name, v.Kind, name))
	}
	if len(v.Val) > 0 && v.Val[0] == '-' {
		i, err := strconv.ParseInt(v.Val, 10, 64)
		if err != nil {
			panic(err)
		}
		return uint64(i)
	}
	u, err := strconv.ParseUint(v.Val, 10, 64)
	if err != nil {
		panic(err)
	}
	return u
}

// Bool returns an arbitrary bool.
func Bool(name string) bool { return u64(name) != 0 }

// Byte returns an arbitrary byte.
func Byte(name string) byte { return byte(u64(name)) }

// Uint8 returns an arbitrary value.
func Uint8(name string) uint8 { return uint8(u64(name)) }

// Uint16 returns an arbitrary value.
func Uint16(name string) uint16 { return uint16(u64(name)) }

// Uint32 returns an arbitrary value.
func Uint32(name string) uint32 { return uint32(u64(name)) }

// Uint64 returns an arbitrary value.
func Uint64(name string) uint64 { return u64(name) }

// Uint returns an arbitrary value.
func Uint(name string) uint { return uint(u64(name)) }

// Int8 returns an arbitrary value.
func Int8(name string) int8 { return int8(u64(name)) }

// Int16 returns an arbitrary value.
func Int16(name string) int16 { return int16(u64(name)) }

// Int32 returns an arbitrary value.
func Int32(name string) int32 { return int32(u64(name)) }

// Int64 returns an arbitrary value.
func Int64(name string) int64 { return int64(u64(name)) }

// Int returns an arbitrary value.
func Int(name string) int { return int(u64(name)) }

// IntRange returns an arbitrary value in [lo, hi].
func IntRange(name string, lo, hi int) int {
	v := int(u64(name))
	if v < lo || v > hi {
		panic(assumeFailure{})
	}
	return v
}

// Choose returns an arbitrary value in [0, n); the engine forks, so the
// result is concrete on every path.
func Choose(name string, n int) int {
	v := int(u64(name))
	if v < 0 || v >= n {
		panic(assumeFailure{})
	}
	return v
}

// Bytes returns n arbitrary bytes.
func Bytes(name string, n int) []byte {
	v := next(name)
	b, err := hex.DecodeString(v.Val)
	if err != nil || len(b) != n {
		panic(fmt.Sprintf("vnd: input %q: bad bytes for %q (want %d)", v.Name, name, n))
	}
	return b
}

// String returns an arbitrary string of n bytes.
func String(name string, n int) string { return string(Bytes(name, n)) }

// Assume restricts the inputs considered.
func Assume(c bool) {
	if !c {
		panic(assumeFailure{})
	}
}

// Assert states a property clause.
func Assert(c bool, label string) {
	if !c {
		panic(assertFailure{label})
	}
}

// Cover marks a point that must be reachable (vacuity witness).
func Cover(c bool, label string) {}

// Bound returns the tier's value of a named bound.
func Bound(name string, def int) int {
	if b, ok := bounds[name]; ok {
		return b
	}
	return def
}

// Concretize forks over the values of x under the engine; natively the identity.
func Concretize(x int) int { return x }

// Panics runs f and reports whether it panicked.
func Panics(f func()) (p bool) {
	defer func() {
		if r := recover(); r != nil {
			switch r.(type) {
			case assertFailure, assumeFailure, exhausted:
				panic(r)
			}
			p = true
		}
	}()
	f()
	return false
}

// AllocLimit makes any single allocation of more than n elements a violation.
func AllocLimit(n int) {
	allocLim = n
	var ms runtime.MemStats
	runtime.ReadMemStats(&ms)
	allocMem = ms.TotalAlloc
}

// MaxAlloc returns the largest single allocation (in elements) seen by the engine;
// natively a coarse upper estimate from the allocator's statistics.
func MaxAlloc() int {
	var ms runtime.MemStats
	runtime.ReadMemStats(&ms)
	return int(ms.TotalAlloc - allocMem)
}

// Symbolic reports whether the harness runs under the symbolic engine.
func Symbolic() bool { return false }

// GoMode selects how the engine treats go statements ("sync", "defer", "skip").
func GoMode(mode string) {}

// MapOrder makes the engine explore every iteration order of the maps ranged over afterwards;
// natively the Go runtime picks an order.
func MapOrder(on bool) {}

// Note is ignored.
func Note(s string) {}

// TB is the part of testing.TB that RunReplay needs.
type TB interface {
	Skip(args ...any)
	Fatal(args ...any)
}

// RunReplay runs the replay cases selected by the environment.
func RunReplay(t TB, entries map[string]func()) {
	path := os.Getenv("VERIF_REPLAY_FILE")
	if path == "" {
		t.Skip("no replay file")
	}
	buf, err := os.ReadFile(path)
	if err != nil {
		t.Fatal(err)
	}
	var f File
	if err := json.Unmarshal(buf, &f); err != nil {
		t.Fatal(err)
	}
	bounds = f.Bounds
	for i, c := range f.Cases {
		fn, ok := entries[c.Entry]
		if !ok {
			fmt.Printf("VERIF-RESULT case=%d entry=%s outcome=no-such-entry\n", i, c.Entry)
			continue
		}
		outcome := runCase(fn, c)
		fmt.Printf("VERIF-RESULT case=%d entry=%s outcome=%s\n", i, c.Entry, outcome)
	}
}

func runCase(fn func(), c Case) (outcome string) {
	cur = c.Inputs
	pos = 0
	allocLim = 0
	defer func() {
		if r := recover(); r != nil {
			switch r := r.(type) {
			case assertFailure:
				outcome = "assert-failed label=" + strconv.Quote(r.label)
			case assumeFailure:
				outcome = "assume-failed"
			case exhausted:
				outcome = "inputs-exhausted at=" + strconv.Quote(r.name)
			default:
				buf := make([]byte, 4096)
				buf = buf[:runtime.Stack(buf, false)]
				outcome = "panic msg=" + strconv.Quote(fmt.Sprint(r)) + " stack=" + strconv.Quote(string(buf))
			}
		}
	}()
	fn()
	if allocLim > 0 {
		var ms runtime.MemStats
		runtime.ReadMemStats(&ms)
		// the engine counts elements of the largest single allocation; natively the total
		// number of bytes allocated since AllocLimit is an upper estimate with some slack
		if d := ms.TotalAlloc - allocMem; d > uint64(allocLim)*16+(1<<20) {
			return "alloc-exceeded bytes=" + strconv.FormatUint(d, 10)
		}
	}
	return "ok"
}
