#!/bin/sh
# Warm the go1.26.8 build cache for native replays (offline). Failure here is not fatal for symbolic runs.
export GOFLAGS=-mod=mod GOPROXY=off GOSUMDB=off GOTOOLCHAIN=local GOWORK=off
export PATH=/opt/veriftools/go1.26.8/bin:$PATH
mkdir -p /verif/.work
cat > /verif/.work/embed-overlay.json <<EOT
{"Replace": {"/repo/internal/core/VERSION": "/verif/embed/VERSION", "/repo/internal/servers/hls/hls.min.js": "/verif/embed/hls.min.js"}}
EOT
cd /repo && go build -overlay /verif/.work/embed-overlay.json ./... && go test -vet=off -count=1 -run '^$' -overlay /verif/.work/embed-overlay.json ./internal/... >/dev/null 2>&1
exit 0
