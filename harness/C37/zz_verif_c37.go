package logger

import (
	"time"

	"github.com/bluenviron/mediamtx/internal/zzverif/vnd"
)

type verifSink struct{ data []byte }

func (s *verifSink) Write(p []byte) (int, error) {
	s.data = append(s.data, p...)
	return len(p), nil
}

func verifHex(c byte) (int, bool) {
	switch {
	case c >= '0' && c <= '9':
		return int(c - '0'), true
	case c >= 'a' && c <= 'f':
		return int(c-'a') + 10, true
	case c >= 'A' && c <= 'F':
		return int(c-'A') + 10, true
	}
	return 0, false
}

func verifEncodeRune(r int) []byte {
	switch {
	case r < 0x80:
		return []byte{byte(r)}
	case r < 0x800:
		return []byte{0xC0 | byte(r>>6), 0x80 | byte(r)&0x3F}
	default:
		return []byte{0xE0 | byte(r>>12), 0x80 | byte(r>>6)&0x3F, 0x80 | byte(r)&0x3F}
	}
}

// verifJSONString reads a JSON string (RFC 8259) at the start of s and returns its value as UTF-8 bytes.
func verifJSONString(s []byte) (val []byte, rest []byte, ok bool) {
	if len(s) == 0 || s[0] != '"' {
		return
	}
	i := 1
	for i < len(s) {
		c := s[i]
		switch {
		case c == '"':
			return val, s[i+1:], true
		case c < 0x20:
			return nil, nil, false
		case c == '\\':
			if i+1 >= len(s) {
				return nil, nil, false
			}
			switch s[i+1] {
			case '"', '\\', '/':
				val = append(val, s[i+1])
			case 'b':
				val = append(val, '\b')
			case 'f':
				val = append(val, '\f')
			case 'n':
				val = append(val, '\n')
			case 'r':
				val = append(val, '\r')
			case 't':
				val = append(val, '\t')
			case 'u':
				if i+5 >= len(s) {
					return nil, nil, false
				}
				r := 0
				for k := 2; k <= 5; k++ {
					h, hok := verifHex(s[i+k])
					if !hok {
						return nil, nil, false
					}
					r = r<<4 | h
				}
				if r >= 0xD800 && r <= 0xDFFF {
					return nil, nil, false // surrogates are not produced for these inputs
				}
				val = append(val, verifEncodeRune(r)...)
				i += 4
			default:
				return nil, nil, false
			}
			i += 2
		default:
			val = append(val, c)
			i++
		}
	}
	return nil, nil, false
}

// verifSanitize replaces each byte that is not part of a valid UTF-8 sequence with U+FFFD.
func verifSanitize(m string) []byte {
	var out []byte
	for i := 0; i < len(m); {
		c := m[i]
		switch {
		case c < 0x80:
			out = append(out, c)
			i++
		case c >= 0xC2 && c <= 0xDF && i+1 < len(m) && m[i+1] >= 0x80 && m[i+1] <= 0xBF:
			out = append(out, c, m[i+1])
			i += 2
		case c >= 0xE0 && c <= 0xEF && i+2 < len(m) && m[i+1] >= 0x80 && m[i+1] <= 0xBF && m[i+2] >= 0x80 && m[i+2] <= 0xBF &&
			!(c == 0xE0 && m[i+1] < 0xA0) && !(c == 0xED && m[i+1] >= 0xA0):
			out = append(out, c, m[i+1], m[i+2])
			i += 3
		case c >= 0xF0 && c <= 0xF4 && i+3 < len(m) && m[i+1] >= 0x80 && m[i+1] <= 0xBF && m[i+2] >= 0x80 && m[i+2] <= 0xBF &&
			m[i+3] >= 0x80 && m[i+3] <= 0xBF && !(c == 0xF0 && m[i+1] < 0x90) && !(c == 0xF4 && m[i+1] >= 0x90):
			out = append(out, c, m[i+1], m[i+2], m[i+3])
			i += 4
		default:
			out = append(out, 0xEF, 0xBF, 0xBD)
			i++
		}
	}
	return out
}

func verifValidUTF8(b []byte) bool {
	s := verifSanitize(string(b))
	if len(s) != len(b) {
		return false
	}
	for i := range s {
		if s[i] != b[i] {
			return false
		}
	}
	return true
}

func verifCheckRecord(line []byte, msg string) {
	vnd.Assert(len(line) > 0 && line[len(line)-1] == '\n', "record ends with a newline")
	for i := 0; i < len(line)-1; i++ {
		vnd.Assert(line[i] != '\n', "record is exactly one line")
	}
	const prefix = `{"timestamp":"1970-01-01T00:00:00Z","level":"WAR","message":`
	vnd.Assert(len(line) > len(prefix) && string(line[:len(prefix)]) == prefix, "timestamp and level fields as given")
	val, rest, ok := verifJSONString(line[len(prefix):])
	vnd.Assert(ok, "message field is a valid JSON string")
	vnd.Assert(string(rest) == "}\n", "object closed after the message")
	want := verifSanitize(msg)
	vnd.Assert(string(val) == string(want), "message decodes to the logged message (invalid UTF-8 replaced by U+FFFD)")
	vnd.Assert(verifValidUTF8(line), "the record is valid UTF-8")
}

// VerifStructuredStdout: the stdout destination with structured logging.
func VerifStructuredStdout() {
	msg := vnd.String("msg", vnd.Choose("len", vnd.Bound("msg_len", 2)+1))
	sink := &verifSink{}
	d := &destinationStdout{structured: true, stdout: sink}
	d.log(time.Unix(0, 0).UTC(), Warn, "%s", msg)
	verifCheckRecord(sink.data, msg)
	vnd.Cover(len(msg) == 2, "two-byte message")
}

// VerifStructuredAstral: messages made of one code point outside the basic plane (a valid four-byte
// UTF-8 sequence: emoji, tag characters, private use, non-characters).
func VerifStructuredAstral() {
	msg := vnd.String("msg", 4)
	vnd.Assume(msg[0] >= 0xF0 && msg[0] <= 0xF4 && msg[1] >= 0x80 && msg[1] <= 0xBF && msg[2] >= 0x80 && msg[2] <= 0xBF && msg[3] >= 0x80 && msg[3] <= 0xBF)
	vnd.Assume(!(msg[0] == 0xF0 && msg[1] < 0x90) && !(msg[0] == 0xF4 && msg[1] >= 0x90))
	sink := &verifSink{}
	d := &destinationStdout{structured: true, stdout: sink}
	d.log(time.Unix(0, 0).UTC(), Warn, "%s", msg)
	verifCheckRecord(sink.data, msg)
	vnd.Cover(msg[0] == 0xF3, "code point in planes 12 to 15")
}
