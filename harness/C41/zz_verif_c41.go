package tls //nolint:revive

import (
	"crypto/sha256"
	"crypto/tls"
	"crypto/x509"
	"encoding/hex"

	"github.com/bluenviron/mediamtx/internal/zzverif/vnd"
)

func verifLowerASCII(c byte) byte {
	if c >= 'A' && c <= 'Z' {
		return c + ('a' - 'A')
	}
	return c
}

// VerifFingerprint: the pinned connection is accepted iff the fingerprint equals the
// hex SHA-256 of the leaf certificate, case-insensitively; chain validity is not consulted.
func VerifFingerprint() {
	raw := []byte{0x30, 0x82, byte(vnd.Choose("cert", 3))}
	d := sha256.Sum256(raw)
	want := hex.EncodeToString(d[:])
	// the configured fingerprint: the right hex string with k arbitrary ASCII bytes spliced in,
	// optionally one byte shorter or longer
	fp := []byte(want)
	k := vnd.Bound("sym_chars", 2)
	for i := 0; i < k; i++ {
		pos := vnd.Choose("pos", 4) * 21 // 0, 21, 42, 63
		c := vnd.Byte("c")
		vnd.Assume(c < 0x80)
		fp[pos] = c
	}
	switch vnd.Choose("lenvariant", 3) {
	case 1:
		fp = fp[:63]
	case 2:
		fp = append(fp, vnd.Byte("extra"))
		vnd.Assume(fp[64] < 0x80)
	}
	conf := MakeConfig(string(fp))
	vnd.Assert(conf != nil, "a non-empty fingerprint yields a configuration")
	vnd.Assert(conf.InsecureSkipVerify, "chain validation is replaced by the pin")
	vnd.Assert(conf.VerifyConnection != nil, "the pin is checked on every connection")
	err := conf.VerifyConnection(tls.ConnectionState{PeerCertificates: []*x509.Certificate{{Raw: raw}}})
	match := len(fp) == 64
	if match {
		for i := 0; i < 64; i++ {
			if verifLowerASCII(fp[i]) != want[i] {
				match = false
			}
		}
	}
	vnd.Assert((err == nil) == match, "accepted iff the fingerprint equals the certificate digest case-insensitively")
	vnd.Cover(err == nil && fp[0] != want[0], "accepted with an upper-case digit")
	vnd.Cover(err != nil && len(fp) == 64, "rejected at the right length")
}

// VerifNoFingerprint: without a fingerprint no pinning configuration is produced.
func VerifNoFingerprint() {
	vnd.Assert(MakeConfig("") == nil, "empty fingerprint: nil configuration")
	vnd.Cover(true, "reached")
}

// VerifPinIsTheLeaf: a peer presents a chain of two certificates; the pin is the digest of one of them.
// Accepted iff the pinned certificate is the leaf (the chain is not validated: anyone can append any
// certificate to it).
func VerifPinIsTheLeaf() {
	leaf := []byte{0x30, 0x82, 0x01, byte(vnd.Choose("leafCert", 3))}
	second := []byte{0x30, 0x82, 0x02, byte(vnd.Choose("secondCert", 3))}
	pinned := leaf
	pinIsLeaf := vnd.Bool("pinIsLeaf")
	if !pinIsLeaf {
		pinned = second
	}
	d := sha256.Sum256(pinned)
	conf := MakeConfig(hex.EncodeToString(d[:]))
	err := conf.VerifyConnection(tls.ConnectionState{PeerCertificates: []*x509.Certificate{{Raw: leaf}, {Raw: second}}})
	vnd.Assert((err == nil) == pinIsLeaf, "the connection is accepted iff the pinned certificate is the one the peer presents as its own")
	vnd.Cover(err != nil, "pinned certificate merely appended to the chain")
}
