package httpp

import (
	"strings"

	"github.com/bluenviron/mediamtx/internal/zzverif/vnd"
)

func verifHostChar(name string) byte {
	c := vnd.Byte(name)
	vnd.Assume((c >= 'a' && c <= 'z') || (c >= '0' && c <= '9') || c == '.' || c == '-')
	return c
}

// reference: does host match a wildcard pattern where '*' stands for any (possibly empty) run of
// host characters and every other character matches literally?
func verifWildMatch(pattern, host string) bool {
	if pattern == "" {
		return host == ""
	}
	if pattern[0] == '*' {
		for i := 0; i <= len(host); i++ {
			if verifWildMatch(pattern[1:], host[i:]) {
				return true
			}
		}
		return false
	}
	return host != "" && host[0] == pattern[0] && verifWildMatch(pattern[1:], host[1:])
}

type verifOrigin struct{ scheme, host, port string }

func (o verifOrigin) String() string {
	s := o.scheme + "://" + o.host
	if o.port != "" {
		s += ":" + o.port
	}
	return s
}

func (o verifOrigin) effPort() string {
	if o.port != "" {
		return o.port
	}
	switch o.scheme {
	case "http":
		return "80"
	case "https":
		return "443"
	}
	return ""
}

func verifParseAllowed(s string) verifOrigin {
	i := strings.Index(s, "://")
	o := verifOrigin{scheme: s[:i]}
	rest := s[i+3:]
	if j := strings.LastIndex(rest, ":"); j >= 0 {
		o.host, o.port = rest[:j], rest[j+1:]
	} else {
		o.host = rest
	}
	return o
}

// reference decision from the property text
func verifExpected(origin verifOrigin, allow []string) (string, bool) {
	for _, a := range allow {
		if a == "*" {
			continue
		}
		ao := verifParseAllowed(a)
		if ao.scheme != origin.scheme || ao.effPort() != origin.effPort() {
			continue
		}
		if strings.Contains(ao.host, "*") {
			if verifWildMatch(ao.host, origin.host) {
				return origin.String(), true
			}
		} else if ao.host == origin.host {
			return origin.String(), true
		}
	}
	for _, a := range allow {
		if a == "*" {
			return "*", true
		}
	}
	return "", false
}

var verifAllowLists = [][]string{
	{"https://*.example.org"},
	{"http://*.example.org:8080"},
	{"https://example.org"},
	{"https://example.org:8443", "*"},
	{"http://cam-*.example.org"},
	{"*"},
	{},
	{"https://*.example.org", "https://*.example.com"},
	{"https://*.example.net", "https://*.example.org", "https://*.example.com"},
}

// VerifCORSSymbolicHost: origins whose host has arbitrary characters spliced in around example.org.
func VerifCORSSymbolicHost() {
	allow := verifAllowLists[vnd.Choose("allow", len(verifAllowLists))]
	shapes := vnd.Choose("shape", 5)
	c1, c2 := verifHostChar("c1"), verifHostChar("c2")
	var host string
	switch shapes {
	case 0:
		host = "a" + string([]byte{c1}) + "example" + string([]byte{c2}) + "org" // a?example?org
	case 1:
		host = "example" + string([]byte{c1}) + "org" + string([]byte{c2}) // example?org?
	case 2:
		host = string([]byte{c1, c2}) + ".example.org" // ??.example.org
	case 3:
		host = "cam-" + string([]byte{c1}) + ".example" + string([]byte{c2}) + "org"
	default:
		host = string([]byte{c1, c2}) + "example.com" // ??example.com: ends like an allowed domain without being under it
	}
	vnd.Assume(host[0] != '.' && host[0] != '-' && host[len(host)-1] != '-')
	o := verifOrigin{scheme: []string{"http", "https"}[vnd.Choose("scheme", 2)], host: host, port: []string{"", "80", "443", "8080", "8443"}[vnd.Choose("port", 5)]}
	got, ok := isOriginAllowed(o.String(), allow)
	want, wantOK := verifExpected(o, allow)
	vnd.Assert(ok == wantOK && got == want, "the origin is echoed iff it matches an allowed origin of the same scheme, host and effective port (wildcards literal except '*'), else '*' iff listed")
	vnd.Cover(ok && got != "*", "origin echoed")
	vnd.Cover(!ok, "origin refused")
}

// VerifCORSApex: the apex domain against a '*.' wildcard entry.
func VerifCORSApex() {
	o := verifOrigin{scheme: "https", host: "example.org"}
	got, ok := isOriginAllowed(o.String(), []string{"https://*.example.org"})
	want, wantOK := verifExpected(o, []string{"https://*.example.org"})
	vnd.Cover(true, "apex checked")
	vnd.Assert(ok == wantOK && got == want, "apex domain is not matched by '*.domain' ('.' matches literally)")
}
