package playback

import (
	"bytes"

	"github.com/bluenviron/mediamtx/internal/zzverif/vnd"
)

// VerifReadHeaderNoPanic: a segment whose mvhd box (version 0 or 1 layout) carries an arbitrary time
// scale and duration is answered with data or an error, never a panic.
func VerifReadHeaderNoPanic() {
	ver := byte(vnd.Choose("version", 2))
	// ISO 14496-12: version 0 has 32-bit times (payload 100 bytes), version 1 64-bit ones (112 bytes)
	n, tsOff, durOff, durLen := 100, 12, 16, 4
	if ver == 1 {
		n, tsOff, durOff, durLen = 112, 20, 24, 8
	}
	mvhd := make([]byte, n)
	mvhd[0] = ver
	copy(mvhd[tsOff:tsOff+4], vnd.Bytes("timescale", 4))
	copy(mvhd[durOff:durOff+durLen], vnd.Bytes("duration", durLen))
	mvhd[durOff+durLen], mvhd[durOff+durLen+1] = 0, 1 // rate 1.0
	mvhd[durOff+durLen+4] = 1                        // volume 1.0
	var file []byte
	file = append(file, 0, 0, 0, 8, 'f', 't', 'y', 'p')
	file = append(file, 0, 0, 0, byte(n+16), 'm', 'o', 'o', 'v')
	file = append(file, 0, 0, 0, byte(n+8), 'm', 'v', 'h', 'd')
	file = append(file, mvhd...)
	init, d, err := segmentFMP4ReadHeader(bytes.NewReader(file))
	if err == nil {
		vnd.Assert(init != nil, "a parsed header comes with its init")
		_ = d
	}
	vnd.Cover(err != nil, "header rejected")
	vnd.Cover(err == nil && ver == 1, "version 1 header accepted")
}

// VerifReadHeaderBoxSizes: the same minimal file, with an arbitrary size field in the moov box header
// (smaller than its header, smaller than the mvhd box, larger than the file) and a file that may be cut short.
func VerifReadHeaderBoxSizes() {
	mvhd := make([]byte, 100)
	mvhd[15] = 1 // time scale 1
	mvhd[20], mvhd[21] = 0, 1
	mvhd[24] = 1
	var file []byte
	file = append(file, 0, 0, 0, 8, 'f', 't', 'y', 'p')
	file = append(file, vnd.Bytes("moovSize", 4)...)
	file = append(file, 'm', 'o', 'o', 'v')
	file = append(file, 0, 0, 0, 108, 'm', 'v', 'h', 'd')
	file = append(file, mvhd...)
	cuts := []int{len(file), 16, 20, 24, 60}
	file = file[:cuts[vnd.Choose("cut", len(cuts))]]
	init, _, err := segmentFMP4ReadHeader(bytes.NewReader(file))
	if err == nil {
		vnd.Assert(init != nil, "a parsed header comes with its init")
	}
	vnd.Cover(err != nil, "header rejected")
	vnd.Cover(err == nil, "header accepted")
}
