package playback

import (
	"bytes"

	"github.com/bluenviron/mediamtx/internal/zzverif/vnd"
)

// VerifReadHeaderNoPanic: a segment whose mvhd box carries arbitrary version, time scale and
// duration is answered with data or an error, never a panic.
func VerifReadHeaderNoPanic() {
	mvhd := make([]byte, 100)
	ver := vnd.Byte("version")
	vnd.Assume(ver <= 1)
	mvhd[0] = ver
	copy(mvhd[12:16], vnd.Bytes("timescale", 4))
	copy(mvhd[16:20], vnd.Bytes("duration", 4))
	mvhd[20], mvhd[21] = 0, 1 // rate 1.0
	mvhd[24] = 1              // volume 1.0
	var file []byte
	file = append(file, 0, 0, 0, 8, 'f', 't', 'y', 'p')
	file = append(file, 0, 0, 0, 116, 'm', 'o', 'o', 'v')
	file = append(file, 0, 0, 0, 108, 'm', 'v', 'h', 'd')
	file = append(file, mvhd...)
	init, d, err := segmentFMP4ReadHeader(bytes.NewReader(file))
	if err == nil {
		vnd.Assert(init != nil, "a parsed header comes with its init")
		_ = d
	}
	vnd.Cover(err != nil, "header rejected")
}

// VerifReadHeaderBoxSizes: the same minimal file, with an arbitrary size field in the moov box header
// (smaller than its header, smaller than the mvhd box, larger than the file) and a file that may be cut short.
func VerifReadHeaderBoxSizes() {
	mvhd := make([]byte, 100)
	mvhd[15] = 1 // time scale 1
	mvhd[20], mvhd[21] = 0, 1
	mvhd[24] = 1
	var file []byte
	file = append(file, 0, 0, 0, 8, 'f', 't', 'y', 'p')
	file = append(file, vnd.Bytes("moovSize", 4)...)
	file = append(file, 'm', 'o', 'o', 'v')
	file = append(file, 0, 0, 0, 108, 'm', 'v', 'h', 'd')
	file = append(file, mvhd...)
	cuts := []int{len(file), 16, 20, 24, 60}
	file = file[:cuts[vnd.Choose("cut", len(cuts))]]
	init, _, err := segmentFMP4ReadHeader(bytes.NewReader(file))
	if err == nil {
		vnd.Assert(init != nil, "a parsed header comes with its init")
	}
	vnd.Cover(err != nil, "header rejected")
	vnd.Cover(err == nil, "header accepted")
}
