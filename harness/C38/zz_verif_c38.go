package confwatcher

import (
	"os"
	"sync"
	"time"

	"github.com/fsnotify/fsnotify"

	"github.com/bluenviron/mediamtx/internal/zzverif/vnd"
)

// VerifFinalContentIsNotified: the watched file is changed `ops` times, with an arbitrary pause (a multiple
// of 100 ms up to 3 s) before each change; three seconds after the last change the server must have been
// notified at or after that change — otherwise it keeps running with an older content.
func VerifFinalContentIsNotified() {
	vnd.GoMode("threads")
	dir, err := os.MkdirTemp("", "verif-c38")
	if err != nil {
		vnd.Assume(false)
	}
	defer os.RemoveAll(dir)
	file := dir + "/mediamtx.yml"
	if os.WriteFile(file, []byte("v0"), 0o644) != nil {
		vnd.Assume(false)
	}
	w := &ConfWatcher{FilePath: file}
	if vnd.Symbolic() {
		// there is no inotify under the engine: the harness plays fsnotify's part and announces every
		// operation it performs on the file with the event inotify produces for it
		w.inner = &fsnotify.Watcher{Events: make(chan fsnotify.Event, 16), Errors: make(chan error)}
		w.absolutePath = file
		w.terminate = make(chan struct{})
		w.signal = make(chan struct{})
		w.done = make(chan struct{})
		go w.run()
	} else if w.Initialize() != nil {
		vnd.Assume(false)
	}
	announce := func(op fsnotify.Op) {
		if vnd.Symbolic() {
			w.inner.Events <- fsnotify.Event{Name: file, Op: op}
		}
	}

	// the server's side: note when each notification arrives
	var mu sync.Mutex
	var last time.Time
	n := 0
	go func() {
		for range w.Watch() {
			mu.Lock()
			last = time.Now()
			n++
			mu.Unlock()
		}
	}()

	ops := vnd.Bound("ops", 2)
	var lastChange time.Time
	exists := true
	for i := 0; i < ops; i++ {
		gap := vnd.IntRange("pause100ms", 0, vnd.Bound("pause_max", 30))
		pause := time.Duration(gap) * 100 * time.Millisecond
		if i == ops-1 && vnd.Bool("justAfterTheNotification") {
			pause += 15 * time.Millisecond // the last change may land right after the additional wait of the previous one
		}
		time.Sleep(pause)
		switch vnd.Choose("op", vnd.Bound("op_kinds", 1)) {
		case 0: // rewrite (or re-create) the file
			if os.WriteFile(file, []byte{'v', byte('1' + i)}, 0o644) != nil {
				vnd.Assume(false)
			}
			if !exists {
				announce(fsnotify.Create)
			}
			announce(fsnotify.Write)
			exists = true
		case 1: // delete it (an editor or a deployment tool replacing the file)
			vnd.Assume(exists)
			if os.Remove(file) != nil {
				vnd.Assume(false)
			}
			announce(fsnotify.Remove)
			exists = false
		}
		lastChange = time.Now()
	}
	vnd.Assume(exists) // the sequence ends with the file in place
	time.Sleep(3 * time.Second)

	mu.Lock()
	notified, at := n, last
	mu.Unlock()
	vnd.Assert(notified > 0 && !at.Before(lastChange), "the server is notified at or after the last change of the file")
	vnd.Cover(notified >= 2, "two notifications")
	w.Close()
}
