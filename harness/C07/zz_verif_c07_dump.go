package httpp

import (
	"bytes"
	"io"
	"net/http"
	"net/url"

	"github.com/bluenviron/mediamtx/internal/zzverif/vnd"
)

// VerifDumpRedactsCredentialHeaders: the debug dump of a request carrying one credential header (any of
// the six kinds) with an arbitrary value and one ordinary header: the dump is exactly the request line,
// the host, the headers in order with the credential replaced by the placeholder, and the body.
func VerifDumpRedactsCredentialHeaders() {
	names := []string{"Authorization", "Cookie", "Proxy-Authorization", "Set-Cookie", "X-Api-Key", "X-Auth-Token"}
	name := names[vnd.Choose("header", len(names))]
	secret := vnd.String("secret", 1+vnd.Choose("secretLen", vnd.Bound("secret_len", 2)))
	other := vnd.String("other", vnd.Choose("otherLen", 2))
	req := &http.Request{Method: "POST", URL: &url.URL{Path: "/x"}, Host: "h", ProtoMajor: 1, ProtoMinor: 1,
		Header: http.Header{name: []string{secret}, "Accept": []string{other}},
		Body:   io.NopCloser(bytes.NewReader([]byte("body")))}
	if vnd.Bool("twoValues") {
		req.Header[name] = append(req.Header[name], secret+"2")
	}
	dump := dumpRequest(req)
	want := "POST /x HTTP/1.1\r\nHost: h\r\nAccept: " + other + "\r\n"
	for range req.Header[name] {
		want += name + ": <redacted>\r\n"
	}
	want += "\r\nbody"
	vnd.Assert(string(dump) == want, "credential header values never appear in the dump; everything else does")
	rest, _ := io.ReadAll(req.Body)
	vnd.Assert(string(rest) == "body", "the request body can still be read after the dump")
	vnd.Cover(len(req.Header[name]) == 2, "two values of a credential header")
}
