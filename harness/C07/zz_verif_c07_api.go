package api

import (
	"github.com/bluenviron/mediamtx/internal/conf"
	"github.com/bluenviron/mediamtx/internal/zzverif/vnd"
)

func verifC07Secret(name string) string {
	return vnd.String(name, vnd.Choose(name+"Len", vnd.Bound("secret_len", 2)+1))
}

func verifC07OptCred(name string) *conf.Credential {
	if !vnd.Bool(name + "Set") {
		return nil
	}
	c := conf.Credential(verifC07Secret(name))
	return &c
}

func verifC07Shown(shown, secret conf.Credential) bool {
	// a credential is shown as the placeholder, or not at all when there is none
	if secret == "" {
		return shown == ""
	}
	return shown == "<redacted>"
}

func verifC07ShownOpt(shown, secret *conf.Credential) bool {
	if secret == nil {
		return shown == nil
	}
	return shown != nil && shown != secret && verifC07Shown(*shown, *secret)
}

// VerifRedaction: the view of the configuration that the Control API serialises, for a configuration
// with two internal users (arbitrary plain or hashed passwords), path defaults and two paths with optional
// deprecated publish/read passwords.
func VerifRedaction() {
	users := []conf.AuthInternalUser{
		{User: "admin", Pass: conf.Credential(verifC07Secret("pass0")), Permissions: []conf.AuthInternalUserPermission{{Action: conf.AuthActionAPI}}},
		{User: conf.Credential(verifC07Secret("user1")), Pass: conf.Credential(verifC07Secret("pass1"))},
	}
	live := &conf.Conf{
		AuthInternalUsers: users,
		PathDefaults:      conf.Path{PublishPass: verifC07OptCred("defPublish"), ReadPass: verifC07OptCred("defRead")},
		Paths: map[string]*conf.Path{
			"cam":        {Name: "cam", PublishPass: verifC07OptCred("camPublish"), ReadPass: verifC07OptCred("camRead")},
			"all_others": {Name: "all_others", ReadPass: verifC07OptCred("othersRead")},
		},
	}
	// what the live configuration holds before the view is produced
	pass0, user1, pass1 := users[0].Pass, users[1].User, users[1].Pass
	type opt struct {
		p *conf.Credential
		v conf.Credential
	}
	snap := func(p *conf.Credential) opt {
		if p == nil {
			return opt{}
		}
		return opt{p, *p}
	}
	cam, others := live.Paths["cam"], live.Paths["all_others"]
	before := []opt{snap(live.PathDefaults.PublishPass), snap(live.PathDefaults.ReadPass), snap(cam.PublishPass), snap(cam.ReadPass), snap(others.ReadPass)}

	view := redactCredentials(live)

	vnd.Assert(view != live && len(view.AuthInternalUsers) == 2 && len(view.Paths) == 2, "the view is a separate configuration of the same shape")
	vnd.Assert(verifC07Shown(view.AuthInternalUsers[0].Pass, pass0) && verifC07Shown(view.AuthInternalUsers[1].Pass, pass1), "internal users' passwords are replaced by the placeholder")
	vnd.Assert(view.AuthInternalUsers[0].User == "admin" && view.AuthInternalUsers[1].User == user1 && len(view.AuthInternalUsers[0].Permissions) == 1, "user names and permissions are shown as they are")
	vnd.Assert(verifC07ShownOpt(view.PathDefaults.PublishPass, live.PathDefaults.PublishPass) && verifC07ShownOpt(view.PathDefaults.ReadPass, live.PathDefaults.ReadPass), "deprecated path-default passwords are replaced by the placeholder")
	vcam, vothers := view.Paths["cam"], view.Paths["all_others"]
	vnd.Assert(vcam != nil && vcam != cam && vothers != nil && vothers != others, "paths of the view are copies")
	vnd.Assert(verifC07ShownOpt(vcam.PublishPass, cam.PublishPass) && verifC07ShownOpt(vcam.ReadPass, cam.ReadPass) && verifC07ShownOpt(vothers.ReadPass, others.ReadPass) && vothers.PublishPass == nil, "deprecated path passwords are replaced by the placeholder")

	// the live configuration is untouched
	vnd.Assert(live.AuthInternalUsers[0].Pass == pass0 && live.AuthInternalUsers[1].Pass == pass1 && live.AuthInternalUsers[1].User == user1, "the live users are not modified")
	after := []*conf.Credential{live.PathDefaults.PublishPass, live.PathDefaults.ReadPass, cam.PublishPass, cam.ReadPass, others.ReadPass}
	for i, b := range before {
		vnd.Assert(after[i] == b.p && (b.p == nil || *b.p == b.v), "the live deprecated passwords are not modified")
	}
	vnd.Assert(live.Paths["cam"] == cam && live.Paths["all_others"] == others, "the live paths are not replaced")
	vnd.Cover(pass0 != "" && cam.ReadPass != nil && *cam.ReadPass != "", "secrets present")
	vnd.Cover(pass0 == "", "user without password")
}
