package varint

import (
	"bytes"

	"github.com/bluenviron/mediamtx/internal/zzverif/vnd"
)

// VerifVarintRoundTrip: every 64-bit value survives Marshal → Unmarshal and Marshal → Read,
// and the encoded length equals MarshalSize.
func VerifVarintRoundTrip() {
	v := Varint(vnd.Uint64("v"))
	enc := v.Marshal()
	vnd.Assert(len(enc) == v.MarshalSize(), "len(encode)=MarshalSize")
	var d Varint
	n, err := d.Unmarshal(enc)
	vnd.Assert(err == nil, "unmarshal(encode) succeeds")
	vnd.Assert(n == len(enc), "unmarshal consumes all")
	vnd.Assert(d == v, "unmarshal(encode(v))=v")
	var r Varint
	err = r.Read(bytes.NewReader(enc))
	vnd.Assert(err == nil, "read(encode) succeeds")
	vnd.Assert(r == v, "read(encode(v))=v")
	vnd.Cover(len(enc) == 9, "nine-byte encoding")
	vnd.Cover(len(enc) == 1, "one-byte encoding")
}

// VerifVarintDecode: decoding arbitrary bytes never panics; Unmarshal and Read agree.
func VerifVarintDecode() {
	n := vnd.Choose("len", vnd.Bound("varint_bytes", 10)+1)
	buf := vnd.Bytes("buf", n)
	var a Varint
	k, err := a.Unmarshal(buf)
	if err == nil {
		vnd.Assert(k >= 1 && k <= len(buf) && k <= 9, "consumed within input")
	}
	var b Varint
	err2 := b.Read(bytes.NewReader(buf))
	vnd.Assert((err == nil) == (err2 == nil), "Unmarshal and Read agree on success")
	if err == nil {
		vnd.Assert(a == b, "Unmarshal and Read agree on value")
		vnd.Cover(k == 9, "decoded nine bytes")
	}
	vnd.Cover(err != nil, "decode error reachable")
}
