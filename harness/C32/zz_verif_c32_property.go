package property

import (
	"github.com/bluenviron/mediamtx/internal/zzverif/vnd"
)

// VerifPropertiesRoundTrip: lists of timestamp properties survive encode/decode.
func VerifPropertiesRoundTrip() {
	np := vnd.Choose("count", vnd.Bound("props", 2)+1)
	var ps Properties
	for i := 0; i < np; i++ {
		ts := Timestamp(vnd.Int64("ts"))
		ps = append(ps, &ts)
	}
	buf := make([]byte, ps.MarshalSize())
	n := ps.MarshalTo(buf)
	vnd.Assert(n == len(buf), "properties: MarshalTo writes MarshalSize bytes")
	var d Properties
	err := d.Unmarshal(buf)
	vnd.Assert(err == nil, "properties: decode(encode) succeeds")
	vnd.Assert(len(d) == np, "properties: same count")
	for i := range d {
		a, ok := d[i].(*Timestamp)
		vnd.Assert(ok, "properties: type preserved")
		vnd.Assert(*a == *(ps[i].(*Timestamp)), "properties: timestamp equal")
	}
	vnd.Cover(np == 2, "two properties")
}

// VerifPropertiesDecode: arbitrary bytes never panic.
func VerifPropertiesDecode() {
	n := vnd.Choose("len", vnd.Bound("prop_bytes", 6)+1)
	buf := vnd.Bytes("buf", n)
	vnd.AllocLimit(64)
	var d Properties
	err := d.Unmarshal(buf)
	if err == nil {
		vnd.Assert(len(d) <= len(buf), "properties: each decoded property consumed input")
		vnd.Cover(len(d) >= 1, "decoded a timestamp")
	}
	vnd.Cover(err != nil, "properties decode error reachable")
}
