package parameter

import (
	"github.com/bluenviron/mediamtx/internal/zzverif/vnd"
)

// VerifParametersRoundTrip: parameter lists of authorization tokens survive encode/decode.
func VerifParametersRoundTrip() {
	np := vnd.Choose("count", vnd.Bound("params", 1)+1)
	var ps Parameters
	for i := 0; i < np; i++ {
		ps = append(ps, &AuthorizationToken{
			AliasType:  AuthorizationTokenAliasTypeUseValue,
			TokenType:  vnd.Uint64("tokenType"),
			TokenValue: vnd.Bytes("token", vnd.Choose("tokenlen", vnd.Bound("token_len", 2)+1)),
		})
	}
	buf := make([]byte, ps.MarshalSize())
	n := ps.MarshalTo(buf)
	vnd.Assert(n == len(buf), "parameters: MarshalTo writes MarshalSize bytes")
	var d Parameters
	k, err := d.Unmarshal(np, buf)
	vnd.Assert(err == nil, "parameters: decode(encode) succeeds")
	vnd.Assert(k == n, "parameters: decode consumes the encoding")
	vnd.Assert(len(d) == np, "parameters: same count")
	for i := range d {
		a, ok := d[i].(*AuthorizationToken)
		vnd.Assert(ok, "parameters: token type preserved")
		b := ps[i].(*AuthorizationToken)
		vnd.Assert(a.AliasType == b.AliasType && a.TokenType == b.TokenType, "parameters: token fields equal")
		vnd.Assert(len(a.TokenValue) == len(b.TokenValue), "parameters: token value length equal")
		for j := range a.TokenValue {
			vnd.Assert(a.TokenValue[j] == b.TokenValue[j], "parameters: token value bytes equal")
		}
	}
	vnd.Cover(np == 1, "one parameter")
}

// VerifParametersDecode: arbitrary bytes and counts never panic.
func VerifParametersDecode() {
	n := vnd.Choose("len", vnd.Bound("param_bytes", 7)+1)
	buf := vnd.Bytes("buf", n)
	count := vnd.Int("count")
	vnd.AllocLimit(64)
	var d Parameters
	k, err := d.Unmarshal(count, buf)
	if err == nil {
		vnd.Assert(k >= 0 && k <= len(buf), "parameters: consumed within input")
		vnd.Assert(uint64(len(d)) == uint64(count), "parameters: decoded count as announced")
		vnd.Cover(len(d) == 1, "decoded one parameter")
	}
	vnd.Cover(err != nil, "parameters decode error reachable")
}
