package controlmessage

import (
	"bytes"

	"github.com/bluenviron/mediamtx/internal/protocols/moq/namespace"
	"github.com/bluenviron/mediamtx/internal/protocols/moq/parameter"
	"github.com/bluenviron/mediamtx/internal/protocols/moq/property"
	"github.com/bluenviron/mediamtx/internal/zzverif/vnd"
)

func verifStr(name string) string {
	return vnd.String(name, vnd.Choose(name+"len", vnd.Bound("str_len", 2)+1))
}

func verifNS() namespace.Namespace {
	np := vnd.Choose("nsparts", vnd.Bound("ns_parts", 2)+1)
	ns := make(namespace.Namespace, np)
	for i := range ns {
		ns[i] = verifStr("nspart")
	}
	return ns
}

func verifParams() parameter.Parameters {
	if vnd.Choose("nparams", vnd.Bound("params", 1)+1) == 0 {
		return nil
	}
	return parameter.Parameters{&parameter.AuthorizationToken{
		AliasType:  parameter.AuthorizationTokenAliasTypeUseValue,
		TokenType:  uint64(vnd.Uint8("tokenType")),
		TokenValue: vnd.Bytes("token", vnd.Choose("tokenlen", vnd.Bound("token_len", 2)+1)),
	}}
}

func verifProps() property.Properties {
	if vnd.Choose("nprops", 2) == 0 {
		return nil
	}
	ts := property.Timestamp(vnd.Int64("ts"))
	return property.Properties{&ts}
}

func verifEqNS(a, b namespace.Namespace) bool {
	if len(a) != len(b) {
		return false
	}
	for i := range a {
		if a[i] != b[i] {
			return false
		}
	}
	return true
}

func verifEqParams(a, b parameter.Parameters) bool {
	if len(a) != len(b) {
		return false
	}
	for i := range a {
		x, ok1 := a[i].(*parameter.AuthorizationToken)
		y, ok2 := b[i].(*parameter.AuthorizationToken)
		if !ok1 || !ok2 || x.AliasType != y.AliasType || x.TokenType != y.TokenType || !bytes.Equal(x.TokenValue, y.TokenValue) {
			return false
		}
	}
	return true
}

func verifEqProps(a, b property.Properties) bool {
	if len(a) != len(b) {
		return false
	}
	for i := range a {
		x, ok1 := a[i].(*property.Timestamp)
		y, ok2 := b[i].(*property.Timestamp)
		if !ok1 || !ok2 || *x != *y {
			return false
		}
	}
	return true
}

func verifRoundTrip(m Message) Message {
	enc := m.Marshal()
	d, err := Read(bytes.NewReader(enc))
	vnd.Assert(err == nil, "control message: read(marshal) succeeds")
	r := bytes.NewReader(enc)
	_, _ = Read(r)
	vnd.Assert(r.Len() == 0, "control message: read consumes exactly the encoding")
	return d
}

// VerifSetupRoundTrip covers SETUP / CLIENT_SETUP / SERVER_SETUP.
func VerifSetupRoundTrip() {
	s := Setup{Path: verifStr("path"), Authority: verifStr("authority")}
	switch vnd.Choose("kind", 3) {
	case 0:
		d, ok := verifRoundTrip(&s).(*Setup)
		vnd.Assert(ok && *d == s, "setup: equal after round trip")
	case 1:
		d, ok := verifRoundTrip((*ClientSetup)(&s)).(*ClientSetup)
		vnd.Assert(ok && Setup(*d) == s, "client setup: equal after round trip")
	default:
		d, ok := verifRoundTrip((*ServerSetup)(&s)).(*ServerSetup)
		vnd.Assert(ok && Setup(*d) == s, "server setup: equal after round trip")
	}
	vnd.Cover(s.Path != "" && s.Authority != "", "both setup options present")
}

// VerifSubscribeRoundTrip covers SUBSCRIBE and SUBSCRIBE_OK.
func VerifSubscribeRoundTrip() {
	if vnd.Choose("kind", 2) == 0 {
		m := Subscribe{RequestID: vnd.Uint64("requestID"), Namespace: verifNS(), TrackName: verifStr("track"), Parameters: verifParams()}
		d, ok := verifRoundTrip(&m).(*Subscribe)
		vnd.Assert(ok, "subscribe: type preserved")
		vnd.Assert(d.RequestID == m.RequestID && d.TrackName == m.TrackName, "subscribe: scalar fields equal")
		vnd.Assert(verifEqNS(d.Namespace, m.Namespace), "subscribe: namespace equal")
		vnd.Assert(verifEqParams(d.Parameters, m.Parameters), "subscribe: parameters equal")
		vnd.Cover(len(m.Parameters) == 1 && len(m.Namespace) == 2, "subscribe with parameter and two-part namespace")
	} else {
		m := SubscribeOk{TrackAlias: vnd.Uint64("alias"), Parameters: verifParams(), TrackProperties: verifProps()}
		d, ok := verifRoundTrip(&m).(*SubscribeOk)
		vnd.Assert(ok, "subscribe ok: type preserved")
		vnd.Assert(d.TrackAlias == m.TrackAlias, "subscribe ok: alias equal")
		vnd.Assert(verifEqParams(d.Parameters, m.Parameters), "subscribe ok: parameters equal")
		vnd.Assert(verifEqProps(d.TrackProperties, m.TrackProperties), "subscribe ok: properties equal")
		vnd.Cover(len(m.TrackProperties) == 1, "subscribe ok with property")
	}
}

// VerifPublishRoundTrip covers PUBLISH, PUBLISH_OK, REQUEST_OK and REQUEST_ERROR.
func VerifPublishRoundTrip() {
	switch vnd.Choose("kind", 4) {
	case 0:
		m := Publish{RequestID: uint64(vnd.Uint16("requestID")), Namespace: verifNS(), TrackName: verifStr("track"),
			TrackAlias: vnd.Uint64("alias"), Parameters: verifParams(), TrackProperties: verifProps()}
		d, ok := verifRoundTrip(&m).(*Publish)
		vnd.Assert(ok, "publish: type preserved")
		vnd.Assert(d.RequestID == m.RequestID && d.TrackName == m.TrackName && d.TrackAlias == m.TrackAlias, "publish: scalar fields equal")
		vnd.Assert(verifEqNS(d.Namespace, m.Namespace), "publish: namespace equal")
		vnd.Assert(verifEqParams(d.Parameters, m.Parameters), "publish: parameters equal")
		vnd.Assert(verifEqProps(d.TrackProperties, m.TrackProperties), "publish: properties equal")
		vnd.Cover(len(m.TrackProperties) == 1 && len(m.Parameters) == 1, "publish with parameter and property")
	case 1:
		m := PublishOk{Parameters: verifParams(), TrackProperties: verifProps()}
		d, ok := verifRoundTrip(&m).(*PublishOk)
		vnd.Assert(ok, "publish ok: type preserved")
		vnd.Assert(verifEqParams(d.Parameters, m.Parameters) && verifEqProps(d.TrackProperties, m.TrackProperties), "publish ok: fields equal")
	case 2:
		m := RequestOk{Parameters: verifParams(), TrackProperties: verifProps()}
		d, ok := verifRoundTrip(&m).(*RequestOk)
		vnd.Assert(ok, "request ok: type preserved")
		vnd.Assert(verifEqParams(d.Parameters, m.Parameters) && verifEqProps(d.TrackProperties, m.TrackProperties), "request ok: fields equal")
	default:
		m := RequestError{Code: RequestErrorCode(vnd.Uint64("code")), Reason: verifStr("reason")}
		d, ok := verifRoundTrip(&m).(*RequestError)
		vnd.Assert(ok, "request error: type preserved")
		vnd.Assert(d.Code == m.Code && d.Reason == m.Reason, "request error: fields equal")
		vnd.Cover(m.Reason != "", "request error with reason")
	}
}

// VerifControlDecode: arbitrary bytes never panic; the payload allocation is bounded by the 16-bit length.
func VerifControlDecode() {
	n := vnd.Choose("len", vnd.Bound("ctl_bytes", 7)+1)
	buf := vnd.Bytes("buf", n)
	vnd.AllocLimit(65535)
	m, err := Read(bytes.NewReader(buf))
	if err == nil {
		vnd.Assert(m != nil, "control message: success returns a message")
		vnd.Cover(true, "control decode success reachable")
	}
	vnd.Cover(err != nil, "control decode error reachable")
}
