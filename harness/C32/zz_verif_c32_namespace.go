package namespace

import (
	"github.com/bluenviron/mediamtx/internal/zzverif/vnd"
)

// VerifNamespaceRoundTrip: decode(encode(ns)) = ns and len(encode) = MarshalSize.
func VerifNamespaceRoundTrip() {
	np := vnd.Choose("parts", vnd.Bound("ns_parts", 2)+1)
	ns := make(Namespace, np)
	for i := range ns {
		ns[i] = vnd.String("part", vnd.Choose("partlen", vnd.Bound("ns_partlen", 2)+1))
	}
	buf := make([]byte, ns.MarshalSize())
	n := ns.MarshalTo(buf)
	vnd.Assert(n == len(buf), "namespace: MarshalTo writes MarshalSize bytes")
	var d Namespace
	k, err := d.Unmarshal(buf)
	vnd.Assert(err == nil, "namespace: decode(encode) succeeds")
	vnd.Assert(k == n, "namespace: decode consumes the encoding")
	vnd.Assert(len(d) == len(ns), "namespace: same number of parts")
	for i := range d {
		vnd.Assert(d[i] == ns[i], "namespace: parts equal")
	}
	vnd.Cover(np == 2, "two parts")
}

// VerifNamespaceDecode: arbitrary bytes never panic; allocation bounded by maxFieldCount.
func VerifNamespaceDecode() {
	n := vnd.Choose("len", vnd.Bound("ns_bytes", 8)+1)
	buf := vnd.Bytes("buf", n)
	vnd.AllocLimit(maxFieldCount)
	var d Namespace
	k, err := d.Unmarshal(buf)
	if err == nil {
		vnd.Assert(k >= 1 && k <= len(buf), "namespace: consumed within input")
		vnd.Assert(len(d) <= maxFieldCount, "namespace: field count bounded")
		total := 0
		for _, p := range d {
			total += len(p)
		}
		vnd.Assert(total <= len(buf), "namespace: parts come from the input")
		vnd.Cover(len(d) == 2, "decoded two parts")
	}
	vnd.Cover(err != nil, "namespace decode error reachable")
}
