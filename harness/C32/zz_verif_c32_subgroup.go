package subgroup

import (
	"bytes"

	"github.com/bluenviron/mediamtx/internal/protocols/moq/property"
	"github.com/bluenviron/mediamtx/internal/zzverif/vnd"
)

func verifSubGroupRT(sg SubGroup) {
	o := sg.Objects[0]
	enc := sg.Marshal()
	var d SubGroup
	err := d.Read(bytes.NewReader(enc))
	vnd.Assert(err == nil, "subgroup: read(marshal) succeeds")
	vnd.Assert(d.Header == sg.Header, "subgroup: header equal")
	vnd.Assert(len(d.Objects) == 1, "subgroup: one object")
	do := d.Objects[0]
	vnd.Assert(do.IDDelta == o.IDDelta, "subgroup: object id equal")
	vnd.Assert(len(do.Payload) == len(o.Payload), "subgroup: payload length equal")
	for i := range do.Payload {
		vnd.Assert(do.Payload[i] == o.Payload[i], "subgroup: payload bytes equal")
	}
	vnd.Assert(len(do.Properties) == len(o.Properties), "subgroup: property count equal")
	if len(do.Properties) == 1 {
		a, ok := do.Properties[0].(*property.Timestamp)
		vnd.Assert(ok && *a == *(o.Properties[0].(*property.Timestamp)), "subgroup: property equal")
	}
}

// VerifSubGroupHeaderRoundTrip: all header values (full 64-bit ids) with a fixed small object.
func VerifSubGroupHeaderRoundTrip() {
	var sg SubGroup
	sg.Header.Properties = vnd.Bool("hprops")
	sg.Header.FirstObject = vnd.Bool("first")
	sg.Header.TrackAlias = vnd.Uint64("alias")
	sg.Header.GroupID = vnd.Uint64("group")
	o := Object{IDDelta: uint64(vnd.Uint8("idDelta")), Payload: vnd.Bytes("payload", 1)}
	if sg.Header.Properties {
		ts := property.Timestamp(vnd.Uint8("ts"))
		o.Properties = property.Properties{&ts}
	}
	sg.Objects = []Object{o}
	verifSubGroupRT(sg)
	vnd.Cover(sg.Header.Properties && sg.Header.FirstObject, "both header flags")
	vnd.Cover(sg.Header.GroupID >= 1<<56, "nine-byte group id")
}

// VerifSubGroupObjectRoundTrip: all object values (full 64-bit id delta and timestamp) under a small header.
func VerifSubGroupObjectRoundTrip() {
	var sg SubGroup
	sg.Header.Properties = vnd.Bool("hprops")
	sg.Header.TrackAlias = uint64(vnd.Uint8("alias"))
	sg.Header.GroupID = uint64(vnd.Uint8("group"))
	o := Object{IDDelta: vnd.Uint64("idDelta"), Payload: vnd.Bytes("payload", 1+vnd.Choose("plen", vnd.Bound("payload", 3)))}
	if sg.Header.Properties && vnd.Bool("withProp") {
		ts := property.Timestamp(vnd.Int64("ts"))
		o.Properties = property.Properties{&ts}
	}
	sg.Objects = []Object{o}
	verifSubGroupRT(sg)
	vnd.Cover(len(o.Properties) == 1, "object with property")
	vnd.Cover(!sg.Header.Properties, "header without properties")
}

// VerifSubGroupDecode: arbitrary stream bytes never panic; allocations bounded by the declared limits.
func VerifSubGroupDecode() {
	n := vnd.Choose("len", vnd.Bound("sg_bytes", 8)+1)
	buf := vnd.Bytes("buf", n)
	vnd.AllocLimit(maxPayloadSize)
	var d SubGroup
	err := d.Read(bytes.NewReader(buf))
	if err == nil {
		vnd.Assert(len(d.Objects) == 1 && len(d.Objects[0].Payload) >= 1, "subgroup: accepted stream has one non-empty object")
		vnd.Assert(len(d.Objects[0].Payload) <= len(buf), "subgroup: payload comes from the input")
		vnd.Cover(true, "subgroup decode success reachable")
	}
	vnd.Cover(err != nil, "subgroup decode error reachable")
}

// verifVarintBytes returns an arbitrary varint encoding of the size class chosen by the engine
// (1..9 bytes): the class prefix is fixed, every value bit is arbitrary.
func verifVarintBytes(name string) []byte {
	prefix := []byte{0x00, 0x80, 0xC0, 0xE0, 0xF0, 0xF8, 0xFC, 0xFE, 0xFF}
	mask := []byte{0x7F, 0x3F, 0x1F, 0x0F, 0x07, 0x03, 0x01, 0x00, 0x00}
	k := vnd.Choose(name+"class", 9)
	b := vnd.Bytes(name, k+1)
	b[0] = prefix[k] | (b[0] & mask[k])
	return b
}

// VerifObjectLengthFields: every encoding of an object's length field (properties length
// or payload length: 1–9 byte varints over the full 64-bit range) followed by up to
// two more bytes is handled without panic and without allocating beyond the declared limits.
func VerifObjectLengthFields() {
	withProps := vnd.Bool("props")
	buf := append([]byte{0x05}, verifVarintBytes("lenfield")...) // object id delta 5, then the length field
	buf = append(buf, vnd.Bytes("rest", vnd.Choose("restlen", vnd.Bound("rest_bytes", 2)+1))...)
	vnd.AllocLimit(maxPayloadSize)
	h := &Header{Properties: withProps}
	var o Object
	err := o.read(bytes.NewReader(buf), h)
	if err == nil {
		vnd.Assert(len(o.Payload) <= len(buf), "object: payload comes from the input")
		vnd.Assert(o.IDDelta == 5, "object: id delta read")
	}
	vnd.Cover(err == nil && len(o.Payload) > 0, "object with payload decoded")
	vnd.Cover(err != nil, "object decode error reachable")
}
