package core

import (
	"github.com/bluenviron/gortsplib/v5/pkg/description"

	"github.com/bluenviron/mediamtx/internal/conf"
	"github.com/bluenviron/mediamtx/internal/defs"
	"github.com/bluenviron/mediamtx/internal/externalcmd"
	"github.com/bluenviron/mediamtx/internal/forward"
	"github.com/bluenviron/mediamtx/internal/logger"
	"github.com/bluenviron/mediamtx/internal/stream"
	"github.com/bluenviron/mediamtx/internal/zzverif/vnd"
)

type verifPublisher struct{ closed int }

func (p *verifPublisher) Log(logger.Level, string, ...any)         {}
func (p *verifPublisher) Close()                                   { p.closed++ }
func (p *verifPublisher) APISourceDescribe() *defs.APIPathSource   { return nil }

// VerifSecondPublisherRefused: with a publisher active and overridePublisher off, a second publisher is
// refused and nothing changes; a path whose source is not 'publisher' refuses every publisher.
func VerifSecondPublisherRefused() {
	a := &verifPublisher{}
	b := &verifPublisher{}
	isPublisherPath := vnd.Bool("sourceIsPublisher")
	src := "publisher"
	if !isPublisherPath {
		src = "rtsp://example.org/x"
	}
	st := &stream.Stream{}
	pa := &path{conf: &conf.Path{Source: src, OverridePublisher: false}, name: "p", stream: st, readers: map[defs.Reader]struct{}{}}
	if isPublisherPath {
		pa.source = a
	}
	res := make(chan defs.PathAddPublisherRes, 2)
	pa.doAddPublisher(defs.PathAddPublisherReq{Author: b, Res: res, AccessRequest: defs.PathAccessRequest{Name: "p", Publish: true}})
	vnd.Assert(len(res) == 1, "exactly one response to an add-publisher request")
	r := <-res
	vnd.Assert(r.Err != nil && r.SubStream == nil, "the second publisher is refused")
	if isPublisherPath {
		vnd.Assert(pa.source == defs.Source(a), "the active publisher stays the source")
	} else {
		vnd.Assert(pa.source == nil, "no publisher on a path with another source")
	}
	vnd.Assert(a.closed == 0 && b.closed == 0 && pa.stream == st, "nothing is closed by a refused request")
	vnd.Cover(!isPublisherPath, "non-publisher path")
}

// VerifRemoveForeignPublisher: a remove request from someone who is not the source changes nothing.
func VerifRemoveForeignPublisher() {
	a := &verifPublisher{}
	b := &verifPublisher{}
	st := &stream.Stream{}
	pa := &path{conf: &conf.Path{Source: "publisher"}, name: "p", stream: st, source: a, readers: map[defs.Reader]struct{}{}}
	res := make(chan struct{})
	pa.doRemovePublisher(defs.PathRemovePublisherReq{Author: b, Res: res})
	vnd.Assert(pa.source == defs.Source(a) && pa.stream == st && a.closed == 0, "only the current source can remove itself")
	vnd.Cover(true, "foreign removal ignored")
}


type verifC16Parent struct{}

func (verifC16Parent) Log(logger.Level, string, ...any) {}
func (verifC16Parent) setPathReady(*path)               {}
func (verifC16Parent) setPathNotReady(*path)            {}
func (verifC16Parent) closePathIfIdle(*path)            {}
func (verifC16Parent) removePath(*path)                 {}
func (verifC16Parent) AddReader(defs.PathAddReaderReq) (*defs.PathAddReaderRes, error) {
	return nil, nil
}

// VerifReplacedPublisherIsCutOff: an always-available path (whose stream outlives its publishers) with a
// publisher A; then A is removed, or a second publisher B arrives (compatible with the stream or not, with
// overridePublisher on or off). Whenever A stops being the source, what A still writes goes nowhere.
func VerifReplacedPublisherIsCutOff() {
	vnd.GoMode("skip")
	override := vnd.Bool("overridePublisher")
	pa := &path{
		conf: &conf.Path{Source: "publisher", AlwaysAvailable: true, OverridePublisher: override},
		name: "p", parent: verifC16Parent{}, readers: map[defs.Reader]struct{}{},
		forwardManager: &forward.Manager{}, externalCmdPool: &externalcmd.Pool{},
	}
	err := pa.setAvailable(nil, "", nil, true) // what run() does first on an always-available path
	vnd.Assume(err == nil)
	a := &verifPublisher{}
	resA := make(chan defs.PathAddPublisherRes, 2)
	pa.doAddPublisher(defs.PathAddPublisherReq{Author: a, Desc: &description.Session{}, Res: resA})
	rA := <-resA
	vnd.Assert(rA.Err == nil && pa.source == defs.Source(a), "the first publisher is attached")
	subA := rA.SubStream

	if vnd.Bool("removed") {
		pa.doRemovePublisher(defs.PathRemovePublisherReq{Author: a, Res: make(chan struct{})})
		vnd.Assert(pa.source == nil, "a removed publisher is not the source")
	} else {
		b := &verifPublisher{}
		descB := &description.Session{}
		if vnd.Bool("incompatible") {
			descB.Medias = []*description.Media{{}} // one track more than the stream offers
		}
		resB := make(chan defs.PathAddPublisherRes, 2)
		pa.doAddPublisher(defs.PathAddPublisherReq{Author: b, Desc: descB, Res: resB})
		vnd.Assert(len(resB) == 1, "exactly one response to an add-publisher request")
		rB := <-resB
		if !override {
			vnd.Assert(rB.Err != nil && pa.source == defs.Source(a) && a.closed == 0, "without overridePublisher the second publisher is refused and the first stays")
		} else {
			vnd.Assert(a.closed == 1, "the previous publisher is closed before the new one is attached")
			if rB.Err == nil {
				vnd.Assert(pa.source == defs.Source(b), "the new publisher is the source")
			} else {
				vnd.Assert(pa.source == nil, "a refused replacement leaves the path without source")
			}
		}
	}
	if pa.source != defs.Source(a) {
		// routing a unit needs the media maps: with nil arguments any attempt to route faults,
		// while a sub-stream that is not the stream's current one returns before
		routed := vnd.Panics(func() { subA.WriteUnit(nil, nil, nil) })
		vnd.Assert(!routed, "nothing written by a replaced or removed publisher reaches the stream afterwards")
	}
	vnd.Cover(pa.source == nil && override && a.closed == 1, "replacement refused after the first publisher was closed")
	vnd.Cover(pa.source != nil && pa.source != defs.Source(a), "publisher replaced")
}

// VerifPublishToPathWithAnotherSource: a path whose source is not 'publisher' — a redirect (which holds a
// source object of its own) or a static source — refuses every publisher, whatever overridePublisher says,
// and stays as it is.
func VerifPublishToPathWithAnotherSource() {
	b := &verifPublisher{}
	redirect := vnd.Bool("redirect")
	pa := &path{conf: &conf.Path{Source: "rtsp://example.org/x", OverridePublisher: vnd.Bool("overridePublisher")}, name: "p",
		parent: verifC16Parent{}, readers: map[defs.Reader]struct{}{}}
	var own defs.Source
	if redirect {
		pa.conf.Source = "redirect"
		pa.conf.SourceRedirect = "rtsp://example.org/y"
		own = &sourceRedirect{}
		pa.source = own
	}
	res := make(chan defs.PathAddPublisherRes, 2)
	panicked := vnd.Panics(func() {
		pa.doAddPublisher(defs.PathAddPublisherReq{Author: b, Res: res, AccessRequest: defs.PathAccessRequest{Name: "p", Publish: true}})
	})
	vnd.Assert(!panicked, "a publish request never crashes the path")
	vnd.Assert(len(res) == 1, "exactly one response to an add-publisher request")
	r := <-res
	vnd.Assert(r.Err != nil && r.SubStream == nil, "a path with another source refuses every publisher")
	vnd.Assert(pa.source == own && b.closed == 0 && pa.stream == nil, "the path keeps its own source")
	vnd.Cover(redirect, "redirect path")
}
