package core

import (
	"github.com/bluenviron/mediamtx/internal/conf"
	"github.com/bluenviron/mediamtx/internal/defs"
	"github.com/bluenviron/mediamtx/internal/logger"
	"github.com/bluenviron/mediamtx/internal/stream"
	"github.com/bluenviron/mediamtx/internal/zzverif/vnd"
)

type verifPublisher struct{ closed int }

func (p *verifPublisher) Log(logger.Level, string, ...any)         {}
func (p *verifPublisher) Close()                                   { p.closed++ }
func (p *verifPublisher) APISourceDescribe() *defs.APIPathSource   { return nil }

// VerifSecondPublisherRefused: with a publisher active and overridePublisher off, a second publisher is
// refused and nothing changes; a path whose source is not 'publisher' refuses every publisher.
func VerifSecondPublisherRefused() {
	a := &verifPublisher{}
	b := &verifPublisher{}
	isPublisherPath := vnd.Bool("sourceIsPublisher")
	src := "publisher"
	if !isPublisherPath {
		src = "rtsp://example.org/x"
	}
	st := &stream.Stream{}
	pa := &path{conf: &conf.Path{Source: src, OverridePublisher: false}, name: "p", stream: st, readers: map[defs.Reader]struct{}{}}
	if isPublisherPath {
		pa.source = a
	}
	res := make(chan defs.PathAddPublisherRes, 2)
	pa.doAddPublisher(defs.PathAddPublisherReq{Author: b, Res: res, AccessRequest: defs.PathAccessRequest{Name: "p", Publish: true}})
	vnd.Assert(len(res) == 1, "exactly one response to an add-publisher request")
	r := <-res
	vnd.Assert(r.Err != nil && r.SubStream == nil, "the second publisher is refused")
	if isPublisherPath {
		vnd.Assert(pa.source == defs.Source(a), "the active publisher stays the source")
	} else {
		vnd.Assert(pa.source == nil, "no publisher on a path with another source")
	}
	vnd.Assert(a.closed == 0 && b.closed == 0 && pa.stream == st, "nothing is closed by a refused request")
	vnd.Cover(!isPublisherPath, "non-publisher path")
}

// VerifRemoveForeignPublisher: a remove request from someone who is not the source changes nothing.
func VerifRemoveForeignPublisher() {
	a := &verifPublisher{}
	b := &verifPublisher{}
	st := &stream.Stream{}
	pa := &path{conf: &conf.Path{Source: "publisher"}, name: "p", stream: st, source: a, readers: map[defs.Reader]struct{}{}}
	res := make(chan struct{})
	pa.doRemovePublisher(defs.PathRemovePublisherReq{Author: b, Res: res})
	vnd.Assert(pa.source == defs.Source(a) && pa.stream == st && a.closed == 0, "only the current source can remove itself")
	vnd.Cover(true, "foreign removal ignored")
}

