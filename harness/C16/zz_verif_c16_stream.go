package stream

import (
	"github.com/bluenviron/mediamtx/internal/zzverif/vnd"
)

// VerifStaleSubStreamIsMute: units written through a sub-stream that is no longer the stream's
// current one go nowhere, whether or not another publisher has taken over.
func VerifStaleSubStreamIsMute() {
	st := &Stream{}
	stale := &SubStream{Stream: st}
	if vnd.Bool("replaced") {
		st.subStream = &SubStream{Stream: st} // the new publisher's sub-stream
	}
	// no media/format maps are set on the stale sub-stream: any attempt to route the unit would fault
	panicked := vnd.Panics(func() { stale.WriteUnit(nil, nil, nil) })
	vnd.Assert(!panicked, "a replaced publisher's write is dropped before any routing")
	vnd.Cover(st.subStream != nil, "replaced by another sub-stream")
}
