package conf

import (
	"github.com/bluenviron/mediamtx/internal/zzverif/vnd"
)

// the shape of the run-time generated optional types: one pointer per parameter
type verifC12OptPath struct {
	Source     *string
	MaxReaders *int
	Record     *bool
}

type verifC12OptGlobal struct {
	WriteQueueSize *int
	ReadTimeout    *Duration
	NoSuchField    *int
}

func verifC12OptInt(name string) *int {
	if !vnd.Bool(name + "Present") {
		return nil
	}
	v := vnd.Int(name)
	return &v
}

func verifC12OptStr(name string) *string {
	if !vnd.Bool(name + "Present") {
		return nil
	}
	v := vnd.String(name, 1)
	return &v
}

func verifC12OptBool(name string) *bool {
	if !vnd.Bool(name + "Present") {
		return nil
	}
	v := vnd.Bool(name)
	return &v
}

// VerifEditsAreExactAndLeaveTheOriginal: one API edit (add / patch / replace / delete of a path, patch of
// the global settings) carried out the way core does it — on a clone of the running configuration — with
// arbitrary request contents: the clone changes in exactly the requested way or the edit fails, and the
// running configuration is the same afterwards in either case (so a rejected edit changes nothing).
func VerifEditsAreExactAndLeaveTheOriginal() {
	src0, n0, rec0 := vnd.String("source", 1), vnd.Int("maxReaders"), vnd.Bool("record")
	wq0, rt0 := vnd.Int("writeQueueSize"), Duration(vnd.Int64("readTimeout"))
	camVals := &verifC12OptPath{Source: &src0, MaxReaders: &n0, Record: &rec0}
	other := &verifC12OptPath{}
	running := &Conf{WriteQueueSize: wq0, ReadTimeout: rt0,
		OptionalPaths: map[string]*OptionalPath{"cam": {Values: camVals}, "other": {Values: other}}}
	srcBefore, nBefore, recBefore := src0, n0, rec0

	edited := running.Clone()
	req := &verifC12OptPath{Source: verifC12OptStr("reqSource"), MaxReaders: verifC12OptInt("reqMaxReaders"), Record: verifC12OptBool("reqRecord")}
	existing := vnd.Bool("nameExists")
	name := "new"
	if existing {
		name = "cam"
	}
	kind := vnd.Choose("edit", 5)
	var err error
	switch kind {
	case 0:
		err = edited.AddPath(name, &OptionalPath{Values: req})
		vnd.Assert((err != nil) == existing, "add fails exactly on an existing name")
	case 1:
		err = edited.PatchPath(name, &OptionalPath{Values: req})
		vnd.Assert((err != nil) == !existing, "patch fails exactly on a missing name")
	case 2:
		err = edited.ReplacePath(name, &OptionalPath{Values: req})
		vnd.Assert(err == nil, "replace succeeds")
	case 3:
		err = edited.RemovePath(name)
		vnd.Assert((err != nil) == !existing, "delete fails exactly on a missing name")
	default:
		greq := &verifC12OptGlobal{WriteQueueSize: verifC12OptInt("reqWriteQueueSize"), NoSuchField: verifC12OptInt("reqUnknown")}
		if vnd.Bool("reqReadTimeoutPresent") {
			d := Duration(vnd.Int64("reqReadTimeout"))
			greq.ReadTimeout = &d
		}
		edited.PatchGlobal(&OptionalGlobal{Values: greq})
		wantWQ, wantRT := wq0, rt0
		if greq.WriteQueueSize != nil {
			wantWQ = *greq.WriteQueueSize
		}
		if greq.ReadTimeout != nil {
			wantRT = *greq.ReadTimeout
		}
		vnd.Assert(edited.WriteQueueSize == wantWQ && edited.ReadTimeout == wantRT, "a global patch changes exactly the settings present in the request")
	}

	// what the edited configuration holds
	ev, _ := func() (*verifC12OptPath, bool) {
		p, ok := edited.OptionalPaths[name]
		if !ok || p == nil {
			return nil, false
		}
		v, ok2 := p.Values.(*verifC12OptPath)
		return v, ok2
	}()
	switch {
	case err != nil:
		vnd.Assert(len(edited.OptionalPaths) == 2, "a failed edit adds and removes nothing")
	case kind == 0 || kind == 2:
		vnd.Assert(ev == req, "add and replace set exactly the given values")
		wantLen := 2
		if !existing {
			wantLen = 3
		}
		vnd.Assert(len(edited.OptionalPaths) == wantLen && edited.OptionalPaths["other"] != nil, "the other paths stay")
	case kind == 1:
		vnd.Assert(ev != nil, "the patched path is still there")
		if ev != nil {
			okSrc := (req.Source != nil && ev.Source != nil && *ev.Source == *req.Source) || (req.Source == nil && ev.Source != nil && *ev.Source == srcBefore)
			okN := (req.MaxReaders != nil && ev.MaxReaders != nil && *ev.MaxReaders == *req.MaxReaders) || (req.MaxReaders == nil && ev.MaxReaders != nil && *ev.MaxReaders == nBefore)
			okRec := (req.Record != nil && ev.Record != nil && *ev.Record == *req.Record) || (req.Record == nil && ev.Record != nil && *ev.Record == recBefore)
			vnd.Assert(okSrc && okN && okRec, "a path patch changes exactly the parameters present in the request")
		}
	case kind == 3:
		vnd.Assert(ev == nil && len(edited.OptionalPaths) == 1 && edited.OptionalPaths["other"] != nil, "delete removes exactly the named path")
	}
	if kind != 4 {
		vnd.Assert(edited.WriteQueueSize == wq0 && edited.ReadTimeout == rt0, "path edits leave the global settings alone")
	}

	// the running configuration is what it was, whether the edit went through or not
	rv, okv := running.OptionalPaths["cam"].Values.(*verifC12OptPath)
	vnd.Assert(okv && rv == camVals && *rv.Source == srcBefore && *rv.MaxReaders == nBefore && *rv.Record == recBefore && len(running.OptionalPaths) == 2 && running.OptionalPaths["other"].Values == any(other),
		"the running configuration's paths are unchanged by an edit of its clone")
	vnd.Assert(running.WriteQueueSize == wq0 && running.ReadTimeout == rt0, "the running configuration's global settings are unchanged by an edit of its clone")
	vnd.Cover(kind == 1 && err == nil && req.MaxReaders != nil && req.Source == nil, "partial patch")
	vnd.Cover(err != nil, "edit refused")
}
