package core

import (
	"encoding/json"
	"strconv"

	"github.com/bluenviron/mediamtx/internal/conf"
	"github.com/bluenviron/mediamtx/internal/logger"
	"github.com/bluenviron/mediamtx/internal/zzverif/vnd"
)

// the shape of the run-time generated optional path type: one pointer per parameter
type verifC12CoreOptPath struct {
	Source     *string
	MaxReaders *int
	Record     *bool
}

// VerifAPIEditLeavesRunningConf: core's own edit functions (doAPIConfigPathAdd/Patch/Replace/Delete) on a
// running configuration with one optional path; the request carries any subset of three parameters.
// Whatever Conf.Validate says about the result (under the engine its verdict is arbitrary; natively it is
// the real one: a source that is not a URL is rejected), the running configuration holds what it held.
func VerifAPIEditLeavesRunningConf() {
	// the request: any subset of three parameters
	var reqSource *string
	var reqMaxReaders *int
	var reqRecord *bool
	if vnd.Bool("reqSourcePresent") {
		s := []string{"publisher", "not a source"}[vnd.Choose("reqSource", 2)] // the second one is rejected by Validate
		reqSource = &s
	}
	if vnd.Bool("reqMaxReadersPresent") {
		n := vnd.IntRange("reqMaxReaders", 0, 1000)
		reqMaxReaders = &n
	}
	if vnd.Bool("reqRecordPresent") {
		r := false
		reqRecord = &r
	}

	// the running configuration with one optional path, and what "its values" are:
	// under the engine hand-written optional structs read field by field; natively the real generated
	// types, decoded from and compared as JSON
	var running *conf.Conf
	entry := &conf.OptionalPath{}
	var req conf.OptionalPath
	var untouched func(v any) bool
	if vnd.Symbolic() {
		running = &conf.Conf{}
		src0, n0, rec0 := "publisher", 3, false
		vals := &verifC12CoreOptPath{Source: &src0, MaxReaders: &n0, Record: &rec0}
		entry.Values = vals
		req.Values = &verifC12CoreOptPath{Source: reqSource, MaxReaders: reqMaxReaders, Record: reqRecord}
		untouched = func(v any) bool {
			got, ok := v.(*verifC12CoreOptPath)
			return ok && got == vals && *got.Source == "publisher" && *got.MaxReaders == 3 && !*got.Record
		}
	} else {
		loaded, _, err := conf.Load("", nil, nil)
		if err != nil {
			vnd.Assume(false)
		}
		running = loaded
		if json.Unmarshal([]byte(`{"source":"publisher","maxReaders":3,"record":false}`), entry) != nil {
			vnd.Assume(false)
		}
		before, _ := json.Marshal(entry.Values)
		text := "{"
		add := func(kv string) {
			if len(text) > 1 {
				text += ","
			}
			text += kv
		}
		if reqSource != nil {
			add(`"source":` + strconv.Quote(*reqSource))
		}
		if reqMaxReaders != nil {
			add(`"maxReaders":` + strconv.Itoa(*reqMaxReaders))
		}
		if reqRecord != nil {
			add(`"record":false`)
		}
		if json.Unmarshal([]byte(text+"}"), &req) != nil {
			vnd.Assume(false)
		}
		untouched = func(v any) bool {
			now, _ := json.Marshal(v)
			return string(now) == string(before)
		}
	}
	running.OptionalPaths = map[string]*conf.OptionalPath{"cam": entry}
	p := &Core{logger: &logger.Logger{Level: logger.Error + 1}}
	p.conf.Store(running)

	name := []string{"cam", "new"}[vnd.Choose("name", 2)]
	var newConf *conf.Conf
	var err error
	switch vnd.Choose("edit", 4) {
	case 0:
		newConf, err = p.doAPIConfigPathAdd(name, req)
	case 1:
		newConf, err = p.doAPIConfigPathPatch(name, req)
	case 2:
		newConf, err = p.doAPIConfigPathReplace(name, req)
	default:
		newConf, err = p.doAPIConfigPathDelete(name)
	}
	vnd.Assert((err == nil) == (newConf != nil), "an edit yields a new configuration or an error")
	vnd.Assert(newConf != running, "the running configuration is never the one edited")
	now := p.conf.Load()
	vnd.Assert(now == running && len(now.OptionalPaths) == 1 && now.OptionalPaths["cam"] == entry, "the running configuration keeps its paths until the new one is loaded")
	vnd.Assert(untouched(now.OptionalPaths["cam"].Values), "an edit, accepted or rejected, leaves the running configuration's values untouched")
	vnd.Cover(err != nil, "edit rejected")
	vnd.Cover(err == nil, "edit accepted")
}
