package srt

import (
	"github.com/bluenviron/mediamtx/internal/zzverif/vnd"
)

func verifComp(name string, forbidden byte) string {
	n := vnd.Choose(name+"len", vnd.Bound("comp_len", 2)+1)
	s := vnd.String(name, n)
	for i := 0; i < len(s); i++ {
		vnd.Assume(s[i] != forbidden)
	}
	return s
}

// VerifStreamIDColon: 'action:path[:query]' and 'action:path:user:pass[:query]'.
func VerifStreamIDColon() {
	actions := []string{"read", "publish", "play", ""}
	ai := vnd.Choose("action", len(actions))
	path := verifComp("path", ':')
	user := verifComp("user", ':')
	pass := verifComp("pass", ':')
	query := verifComp("query", ':')
	var raw string
	variant := vnd.Choose("variant", 6)
	switch variant {
	case 0:
		raw = actions[ai] + ":" + path
	case 1:
		raw = actions[ai] + ":" + path + ":" + query
	case 2:
		raw = actions[ai] + ":" + path + ":" + user + ":" + pass
	case 3:
		raw = actions[ai] + ":" + path + ":" + user + ":" + pass + ":" + query
	case 4:
		raw = actions[ai] // one part
	default:
		raw = actions[ai] + ":" + path + ":" + user + ":" + pass + ":" + query + ":" + path // six parts
	}
	var s streamID
	err := s.unmarshal(raw)
	if variant >= 4 || ai >= 2 {
		// "#!::" cannot be formed: components are at most 2 bytes and actions are fixed
		vnd.Assert(err != nil, "stream id with a wrong number of parts or an unknown action is rejected")
		return
	}
	vnd.Assert(err == nil, "well-formed stream id is accepted")
	vnd.Assert((s.mode == streamIDModePublish) == (ai == 1), "action parsed exactly")
	vnd.Assert(s.path == path, "path parsed exactly")
	if variant == 2 || variant == 3 {
		vnd.Assert(s.user == user && s.pass == pass, "credentials parsed exactly")
	} else {
		vnd.Assert(s.user == "" && s.pass == "", "no credentials invented")
	}
	if variant == 1 || variant == 3 {
		vnd.Assert(s.query == query, "query parsed exactly")
	} else {
		vnd.Assert(s.query == "", "no query invented")
	}
	vnd.Cover(variant == 3 && len(query) == 2, "five parts with query")
}

// VerifStreamIDKV: the '#!::key=value,...' syntax.
func VerifStreamIDKV() {
	path := verifComp("path", ',')
	user := verifComp("user", ',')
	pass := verifComp("pass", ',')
	modes := []string{"request", "publish", "bidirectional"}
	mi := vnd.Choose("mode", len(modes))
	raw := "#!::r=" + path + ",u=" + user + ",s=" + pass + ",m=" + modes[mi]
	var s streamID
	err := s.unmarshal(raw)
	if mi == 2 {
		vnd.Assert(err != nil, "unsupported mode rejected")
		return
	}
	vnd.Assert(err == nil, "well-formed key-value stream id accepted")
	vnd.Assert((s.mode == streamIDModePublish) == (mi == 1), "mode parsed exactly")
	vnd.Assert(s.path == path && s.user == user && s.pass == pass, "key-value fields parsed exactly")
	vnd.Cover(len(path) == 2 && len(pass) == 2, "two-byte fields")
}
