package httpp

import (
	"net/http"

	"github.com/bluenviron/mediamtx/internal/zzverif/vnd"
)

// VerifHTTPCredentials: Bearer user:pass, Bearer token and Basic.
func VerifHTTPCredentials() {
	switch vnd.Choose("kind", 3) {
	case 0:
		v := vnd.String("bearer", vnd.Choose("len", vnd.Bound("bearer_len", 4)+1))
		req := &http.Request{Header: http.Header{"Authorization": []string{"Bearer " + v}}}
		c := Credentials(req)
		colons, pos := 0, -1
		for i := 0; i < len(v); i++ {
			if v[i] == ':' {
				colons++
				if pos < 0 {
					pos = i
				}
			}
		}
		if colons == 1 {
			vnd.Assert(c.User == v[:pos] && c.Pass == v[pos+1:] && c.Token == "", "Bearer user:pass yields the credentials exactly")
		} else {
			vnd.Assert(c.Token == v && c.User == "" && c.Pass == "", "any other Bearer value is the token, unchanged")
		}
		vnd.Cover(colons == 1 && pos == 1, "bearer with credentials")
		vnd.Cover(colons == 2, "bearer token with two colons")
	case 1:
		req := &http.Request{Header: http.Header{"Authorization": []string{"Basic dTpw"}}} // u:p
		c := Credentials(req)
		vnd.Assert(c.User == "u" && c.Pass == "p" && c.Token == "", "Basic credentials decoded")
	default:
		req := &http.Request{Header: http.Header{}}
		c := Credentials(req)
		vnd.Assert(c.User == "" && c.Pass == "" && c.Token == "", "no header, no credentials")
	}
}
