package whip

import (
	"github.com/pion/webrtc/v4"

	"github.com/bluenviron/mediamtx/internal/zzverif/vnd"
)

// VerifLinkHeaderRoundTrip: ICE credentials survive marshal → unmarshal for any bytes.
func VerifLinkHeaderRoundTrip() {
	user := vnd.String("user", 1+vnd.Choose("userlen", vnd.Bound("cred_len", 3)))
	cred := vnd.String("cred", vnd.Choose("credlen", vnd.Bound("cred_len", 3)+1))
	in := []webrtc.ICEServer{{URLs: []string{"turn:example.com:3478"}, Username: user, Credential: cred, CredentialType: webrtc.ICECredentialTypePassword}}
	enc := LinkHeaderMarshal(in)
	vnd.Assert(len(enc) == 1, "one link per server")
	out, err := LinkHeaderUnmarshal(enc)
	vnd.Assert(err == nil, "unmarshal(marshal) succeeds")
	vnd.Assert(len(out) == 1, "one server back")
	vnd.Assert(out[0].Username == user, "username unchanged")
	c, ok := out[0].Credential.(string)
	vnd.Assert(ok && c == cred, "credential unchanged")
	vnd.Assert(len(out[0].URLs) == 1 && out[0].URLs[0] == "turn:example.com:3478", "url unchanged")
	vnd.Cover(len(enc[0]) > len(user)+len(cred)+60, "escaping happened")
}
