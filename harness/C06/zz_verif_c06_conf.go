package conf

import (
	"regexp"

	"github.com/bluenviron/mediamtx/internal/zzverif/vnd"
)

func verifNameOK(name string) bool {
	if len(name) == 0 || name[0] == '/' || name[len(name)-1] == '/' {
		return false
	}
	segStart := 0
	for i := 0; i <= len(name); i++ {
		if i == len(name) || name[i] == '/' {
			seg := name[segStart:i]
			if seg == "." || seg == ".." {
				return false
			}
			segStart = i + 1
			continue
		}
		c := name[i]
		alnum := (c >= '0' && c <= '9') || (c >= 'a' && c <= 'z') || (c >= 'A' && c <= 'Z')
		if !alnum && c != '_' && c != '-' && c != '.' {
			return false
		}
	}
	return true
}

// VerifPathNameValid: every accepted name satisfies the documented shape.
func VerifPathNameValid() {
	n := vnd.Choose("len", vnd.Bound("name_len", 4)+1)
	name := vnd.String("name", n)
	err := IsValidPathName(name)
	if err == nil {
		vnd.Assert(verifNameOK(name), "accepted path name has the documented shape")
		vnd.Cover(n >= 3, "accepted name of three bytes")
	}
	vnd.Cover(err != nil && n >= 2, "rejection reachable")
}

// VerifFindPathConfRejectsInvalid: without an exact entry, an invalid name is never resolved.
func VerifFindPathConfRejectsInvalid() {
	n := vnd.Choose("len", vnd.Bound("name_len", 4)+1)
	name := vnd.String("name", n)
	all := &Path{Name: "all_others", Regexp: regexp.MustCompile("^.*$")} // as Path.validate builds it
	vnd.Assume(name != "all_others")
	confs := map[string]*Path{"all_others": all}
	pc, _, err := FindPathConf(confs, name)
	if err == nil {
		vnd.Assert(pc == all, "resolution returns the catch-all entry")
		vnd.Assert(verifNameOK(name), "a name resolved through a regular expression entry has the documented shape")
		vnd.Cover(true, "catch-all resolution reachable")
	}
	vnd.Cover(err != nil, "invalid name rejected")
}
