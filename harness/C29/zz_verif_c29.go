package recordstore

import (
	"os"
	"time"

	"github.com/bluenviron/mediamtx/internal/conf"
	"github.com/bluenviron/mediamtx/internal/zzverif/vnd"
)

// VerifFindSegmentsWindow: for a directory with three segments one hour apart and an arbitrary
// requested window, the returned segments are time-ordered, none starts after the window's end,
// and every segment that can hold media of the window is returned.
func VerifFindSegmentsWindow() {
	time.Local = time.UTC
	dir, err := os.MkdirTemp("", "verif-c29")
	if err != nil {
		vnd.Assume(false)
	}
	defer os.RemoveAll(dir)
	// two directory layouts: the default one (file names sort like their start times) and a day-first
	// one over a month boundary (file names sort differently from their start times)
	base := int64(1700000000) // 2023-11-14T22:13:20Z
	format := dir + "/%path/%Y-%m-%d_%H-%M-%S-%f"
	if vnd.Choose("layout", 2) == 1 {
		base = 1701385200 // 2023-11-30T23:00:00Z
		format = dir + "/%path/%d-%m-%Y_%H-%M-%S-%f"
	}
	starts := []int64{base, base + 3600, base + 7200}
	names := make([]string, 3)
	for i, st := range starts {
		full := Path{Start: time.Unix(st, 0), Path: "cam"}.Encode(format) + ".mp4"
		names[i] = full[len(dir)+len("/cam/"):]
	}
	if os.MkdirAll(dir+"/cam", 0o755) != nil {
		vnd.Assume(false)
	}
	present := make([]bool, 3)
	n := 0
	for i, nm := range names {
		present[i] = vnd.Bool("present")
		if present[i] {
			n++
			if os.WriteFile(dir+"/cam/"+nm, []byte("x"), 0o644) != nil {
				vnd.Assume(false)
			}
		}
	}
	if os.WriteFile(dir+"/cam/readme.txt", []byte("x"), 0o644) != nil {
		vnd.Assume(false)
	}
	pconf := &conf.Path{Name: "cam", RecordPath: format, RecordFormat: conf.RecordFormatFMP4}
	s, e := vnd.Int64("start"), vnd.Int64("end")
	vnd.Assume(s >= base-5000 && s <= base+12000 && e >= s && e <= base+12000)
	var startP, endP *time.Time
	if vnd.Bool("hasStart") {
		t := time.Unix(s, 0)
		startP = &t
	}
	if vnd.Bool("hasEnd") {
		t := time.Unix(e, 0)
		endP = &t
	}
	segs, ferr := FindSegments(pconf, "cam", startP, endP)

	// reference: candidates start at or before the end; of those that start at or before the
	// window start only the last one can hold media of the window
	var want []int64
	for i := range starts {
		if present[i] && (endP == nil || starts[i] <= e) {
			want = append(want, starts[i])
		}
	}
	if startP != nil {
		first := 0
		for i, st := range want {
			if st <= s {
				first = i
			}
		}
		if len(want) > 0 {
			want = want[first:]
		}
	}
	if len(want) == 0 {
		vnd.Assert(ferr != nil, "no segment in the window: an error, not an empty success")
	} else {
		vnd.Assert(ferr == nil && len(segs) == len(want), "exactly the segments that can hold media of the window are returned")
		for i := range segs {
			if i < len(want) {
				vnd.Assert(segs[i].Start.Unix() == want[i], "segments come back in time order with their start instants")
			}
		}
	}
	vnd.Cover(ferr == nil && len(segs) == 2 && startP != nil, "window starting inside a segment")
	vnd.Cover(ferr != nil && n > 0, "window before or after all segments")
}
