package api

import (
	"net/http"
	"net/http/httptest"
	"net/url"
	"strings"
	"time"

	"github.com/gin-gonic/gin"

	"github.com/bluenviron/mediamtx/internal/conf"
	"github.com/bluenviron/mediamtx/internal/defs"
	"github.com/bluenviron/mediamtx/internal/zzverif/vnd"
)

// VerifEveryRouteIsBehindTheAuthorisationStep: the router that API.Initialize builds, asked for each of
// its own routes by a client the authentication manager refuses: the answer is 401 and no handler runs
// (the servers and the parent behind the handlers are absent: a handler that ran would fault).
func VerifEveryRouteIsBehindTheAuthorisationStep() {
	gin.SetMode(gin.ReleaseMode)
	am := &verifAuth{outcome: 1 + vnd.Choose("refusal", 2)}
	a := &API{Address: "127.0.0.1:0", ReadTimeout: conf.Duration(10 * time.Second), WriteTimeout: conf.Duration(10 * time.Second),
		AuthManager: am, Parent: &verifC04Parent{}}
	// every optional server is present (a pointer that implements nothing: a handler that ran would fault),
	// so that all routes are registered
	a.RTSPServer, a.RTSPSServer = &verifC04RTSP{}, &verifC04RTSP{}
	a.RTMPServer, a.RTMPSServer = &verifC04RTMP{}, &verifC04RTMP{}
	a.HLSServer, a.WebRTCServer, a.SRTServer, a.MoQServer = &verifC04HLS{}, &verifC04WebRTC{}, &verifC04SRT{}, &verifC04MoQ{}
	if err := a.Initialize(); err != nil {
		vnd.Assume(false)
	}
	router, ok := a.httpServer.Handler.(*gin.Engine)
	vnd.Assert(ok, "the API serves a gin router")
	routes := router.Routes()
	vnd.Assert(len(routes) >= 45, "the router lists its routes, those of every protocol server included")
	i := vnd.Choose("route", len(routes))
	rt := routes[i]
	path := strings.NewReplacer("*name", "x", ":id", "00000000-0000-0000-0000-000000000000").Replace(rt.Path)
	w := httptest.NewRecorder()
	req := &http.Request{Method: rt.Method, URL: &url.URL{Path: path}, Header: http.Header{}, RemoteAddr: "192.0.2.7:4455", Body: http.NoBody}
	calls := am.calls
	faulted := vnd.Panics(func() { router.ServeHTTP(w, req) })
	vnd.Assert(!faulted, "a refused request never reaches a handler")
	vnd.Assert(am.calls == calls+1 && am.last.Action == conf.AuthActionAPI, "every route asks for the api permission")
	vnd.Assert(w.Code == http.StatusUnauthorized, "a refused request is answered 401")
	vnd.Cover(rt.Method == http.MethodDelete, "a DELETE route")
	if !vnd.Symbolic() {
		a.Close()
	}
}

type verifC04RTSP struct{ defs.APIRTSPServer }
type verifC04RTMP struct{ defs.APIRTMPServer }
type verifC04HLS struct{ defs.APIHLSServer }
type verifC04WebRTC struct{ defs.APIWebRTCServer }
type verifC04SRT struct{ defs.APISRTServer }
type verifC04MoQ struct{ defs.APIMoQServer }
