package playback

import (
	"errors"
	"net/http"
	"net/http/httptest"
	"net/url"

	"github.com/gin-gonic/gin"

	"github.com/bluenviron/mediamtx/internal/auth"
	"github.com/bluenviron/mediamtx/internal/conf"
	"github.com/bluenviron/mediamtx/internal/logger"
	"github.com/bluenviron/mediamtx/internal/zzverif/vnd"
)

type verifAuth struct {
	calls   int
	last    *auth.Request
	outcome int // 0 admit, 1 reject, 2 reject and ask for credentials
}

func (a *verifAuth) Authenticate(req *auth.Request) (string, *auth.Error) {
	a.calls++
	a.last = req
	switch a.outcome {
	case 0:
		return req.Credentials.User, nil
	case 1:
		return "", &auth.Error{Wrapped: errors.New("denied")}
	default:
		return "", &auth.Error{Wrapped: errors.New("denied"), AskCredentials: true}
	}
}

func (a *verifAuth) RefreshJWTJWKS() {}

type verifC04Log struct{}

func (verifC04Log) Log(logger.Level, string, ...any) {}

func verifC04Ctx() (*gin.Context, string, string) {
	user := vnd.String("user", vnd.Choose("userlen", 2))
	pass := vnd.String("pass", vnd.Choose("passlen", 2))
	for i := 0; i < len(user); i++ {
		vnd.Assume(user[i] != ':')
	}
	for i := 0; i < len(pass); i++ {
		vnd.Assume(pass[i] != ':')
	}
	ctx, _ := gin.CreateTestContext(httptest.NewRecorder())
	ctx.Request = &http.Request{Method: http.MethodGet, URL: &url.URL{Path: "/x", RawQuery: "q=1"},
		Header: http.Header{"Authorization": []string{"Bearer " + user + ":" + pass}}, RemoteAddr: "192.0.2.7:4455"}
	return ctx, user, pass
}

func verifC04Check(am *verifAuth, ctx *gin.Context, user, pass string, action conf.AuthAction, path string, passed bool) {
	vnd.Assert(am.calls == 1, "the request is authenticated exactly once")
	r := am.last
	vnd.Assert(r.Action == action && r.Path == path, "authentication is asked for this endpoint's action (and path)")
	vnd.Assert(r.Credentials.User == user && r.Credentials.Pass == pass, "the client's credentials are the ones authenticated")
	vnd.Assert(r.IP.String() == "192.0.2.7" && r.Query == "q=1", "the client's address and query are the ones authenticated")
	vnd.Assert(passed == (am.outcome == 0), "the request proceeds iff it was admitted")
	vnd.Assert(passed || ctx.Writer.Status() == http.StatusUnauthorized, "a refused request is answered 401")
}

// VerifPlaybackAuth: the playback server's per-request authorisation.
func VerifPlaybackAuth() {
	am := &verifAuth{outcome: vnd.Choose("outcome", 3)}
	s := &Server{AuthManager: am, Parent: verifC04Log{}}
	ctx, user, pass := verifC04Ctx()
	path := vnd.String("path", 1+vnd.Choose("pathlen", 2))
	ok := s.doAuth(ctx, path)
	verifC04Check(am, ctx, user, pass, conf.AuthActionPlayback, path, ok)
	vnd.Assert(ok == !ctx.IsAborted(), "a refused playback request is answered (aborted) by the authorisation step")
	vnd.Cover(!ok, "rejected playback request")
	vnd.Cover(ok, "admitted playback request")
}

// VerifPlaybackRoutes: every route of the router the playback server builds, asked for a path by a refused client.
func VerifPlaybackRoutes() {
	gin.SetMode(gin.ReleaseMode)
	am := &verifAuth{outcome: 1 + vnd.Choose("refusal", 2)}
	s := &Server{Address: "127.0.0.1:0", ReadTimeout: conf.Duration(10e9), WriteTimeout: conf.Duration(10e9), AuthManager: am, Parent: verifC04Log{}}
	if s.Initialize() != nil {
		vnd.Assume(false)
	}
	router, ok := s.httpServer.Handler.(*gin.Engine)
	vnd.Assert(ok, "the playback server serves a gin router")
	routes := router.Routes()
	vnd.Assert(len(routes) >= 2, "the router lists its routes")
	rt := routes[vnd.Choose("route", len(routes))]
	w := httptest.NewRecorder()
	req := &http.Request{Method: rt.Method, URL: &url.URL{Path: rt.Path, RawQuery: "path=cam&start=2008-11-07T11%3A22%3A00Z&duration=10"}, Header: http.Header{}, RemoteAddr: "192.0.2.7:4455", Body: http.NoBody}
	faulted := vnd.Panics(func() { router.ServeHTTP(w, req) })
	vnd.Assert(!faulted && am.calls == 1 && am.last.Action == conf.AuthActionPlayback && am.last.Path == "cam" && w.Code == http.StatusUnauthorized, "every playback route answers a refused client with 401 before touching any recording")
	vnd.Cover(true, "route asked")
	if !vnd.Symbolic() {
		s.Close()
	}
}
