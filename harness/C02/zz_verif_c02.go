package auth

import (
	"io"
	"net"
	"net/http"
	"net/http/httptest"

	"github.com/bluenviron/mediamtx/internal/conf"
	"github.com/bluenviron/mediamtx/internal/zzverif/vnd"
)

// the authentication server: under the engine (*http.Client).Post hands the request to verifHTTPPost;
// natively a real HTTP server does
var verifC02Srv struct {
	calls  int
	body   []byte
	status int
	resp   []byte
}

func verifHTTPPost(_ string, body []byte) (int, []byte) {
	verifC02Srv.calls++
	verifC02Srv.body = append([]byte(nil), body...)
	return verifC02Srv.status, verifC02Srv.resp
}

func verifC02Hex(c byte) (int, bool) {
	switch {
	case c >= '0' && c <= '9':
		return int(c - '0'), true
	case c >= 'a' && c <= 'f':
		return int(c-'a') + 10, true
	case c >= 'A' && c <= 'F':
		return int(c-'A') + 10, true
	}
	return 0, false
}

func verifC02EncodeRune(r int) []byte {
	switch {
	case r < 0x80:
		return []byte{byte(r)}
	case r < 0x800:
		return []byte{0xC0 | byte(r>>6), 0x80 | byte(r)&0x3F}
	default:
		return []byte{0xE0 | byte(r>>12), 0x80 | byte(r>>6)&0x3F, 0x80 | byte(r)&0x3F}
	}
}

// verifC02JSONString reads a JSON string (RFC 8259) at the start of s and returns its value as UTF-8 bytes.
func verifC02JSONString(s []byte) (val []byte, rest []byte, ok bool) {
	if len(s) == 0 || s[0] != '"' {
		return
	}
	i := 1
	for i < len(s) {
		c := s[i]
		switch {
		case c == '"':
			return val, s[i+1:], true
		case c < 0x20:
			return nil, nil, false
		case c == '\\':
			if i+1 >= len(s) {
				return nil, nil, false
			}
			switch s[i+1] {
			case '"', '\\', '/':
				val = append(val, s[i+1])
			case 'b':
				val = append(val, '\b')
			case 'f':
				val = append(val, '\f')
			case 'n':
				val = append(val, '\n')
			case 'r':
				val = append(val, '\r')
			case 't':
				val = append(val, '\t')
			case 'u':
				if i+5 >= len(s) {
					return nil, nil, false
				}
				r := 0
				for k := 2; k <= 5; k++ {
					h, hok := verifC02Hex(s[i+k])
					if !hok {
						return nil, nil, false
					}
					r = r<<4 | h
				}
				if r >= 0xD800 && r <= 0xDFFF {
					return nil, nil, false // surrogates are not produced for these inputs
				}
				val = append(val, verifC02EncodeRune(r)...)
				i += 4
			default:
				return nil, nil, false
			}
			i += 2
		default:
			val = append(val, c)
			i++
		}
	}
	return nil, nil, false
}


var verifC02Actions = []conf.AuthAction{conf.AuthActionPublish, conf.AuthActionRead, conf.AuthActionPlayback, conf.AuthActionAPI, conf.AuthActionMetrics, conf.AuthActionPprof}

// the token the property says is taken from a request
func verifC02Token(req *Request, queryToken string, inHTTPQuery bool) string {
	switch {
	case req.Credentials.Token != "":
		return req.Credentials.Token
	case req.Credentials.Pass != "":
		return req.Credentials.Pass
	case req.Protocol == ProtocolRTSP || req.Protocol == ProtocolRTMP:
		return queryToken
	case inHTTPQuery && (req.Protocol == ProtocolHLS || req.Protocol == ProtocolWebRTC || req.Action == conf.AuthActionPlayback || req.Action == conf.AuthActionAPI || req.Action == conf.AuthActionMetrics || req.Action == conf.AuthActionPprof):
		return queryToken
	}
	return ""
}

func verifC02Query(req *Request) string {
	switch vnd.Choose("query", 5) {
	case 1:
		req.Query = "token=qt"
		return "qt"
	case 2:
		req.Query = "a=b&jwt=qj"
		return "qj"
	case 3:
		req.Query = "token=t1&token=t2" // ambiguous: not a token
	case 4:
		req.Query = "x=1"
	}
	return ""
}

func verifC02Excluded(ex []conf.AuthInternalUserPermission, req *Request) bool {
	for _, p := range ex {
		if p.Action != req.Action {
			continue
		}
		if p.Action != conf.AuthActionPublish && p.Action != conf.AuthActionRead && p.Action != conf.AuthActionPlayback {
			return true
		}
		if p.Path == "" || p.Path == req.Path {
			return true
		}
	}
	return false
}

func verifC02Server(m *Manager, st int) func() {
	verifC02Srv.calls, verifC02Srv.body = 0, nil
	verifC02Srv.status = st
	if st == 199 { // 199 stands for "the server cannot be reached"
		verifC02Srv.status = -1
	}
	m.HTTPAddress = "http://auth.example/check"
	if vnd.Symbolic() {
		return func() {}
	}
	srv := httptest.NewServer(http.HandlerFunc(func(w http.ResponseWriter, r *http.Request) {
		body, _ := io.ReadAll(r.Body)
		code, resp := verifHTTPPost(r.URL.String(), body)
		w.WriteHeader(code)
		w.Write(resp) //nolint:errcheck
	}))
	m.HTTPAddress = srv.URL
	if st == 199 {
		srv.Close() // nobody listens there any more
		verifC02Srv.calls = 1
		return func() {}
	}
	return srv.Close
}

func verifC02OptX(name string) string {
	if vnd.Bool(name) {
		return "x"
	}
	return ""
}

// VerifHTTPDecision: the http method — who is admitted.
func VerifHTTPDecision() {
	st := vnd.IntRange("status", 199, 599)
	verifC02Srv.resp = []byte(vnd.String("responseBody", vnd.Choose("responseLen", 2)))
	m := &Manager{Method: conf.AuthMethodHTTP}
	req := &Request{
		Action:               verifC02Actions[vnd.Choose("action", len(verifC02Actions))],
		Path:                 []string{"p", "q"}[vnd.Choose("path", 2)],
		Protocol:             []Protocol{ProtocolRTSP, ProtocolHLS}[vnd.Choose("protocol", 2)],
		Credentials:          &Credentials{User: verifC02OptX("user"), Pass: verifC02OptX("pass"), Token: verifC02OptX("token")},
		IP:                   net.IP{192, 0, 2, 7},
		EnableAskCredentials: vnd.Bool("ask"),
	}
	wantToken := verifC02Token(req, verifC02Query(req), false)
	switch vnd.Choose("exclude", 4) {
	case 1:
		m.HTTPExclude = []conf.AuthInternalUserPermission{{Action: req.Action}}
	case 2:
		m.HTTPExclude = []conf.AuthInternalUserPermission{{Action: conf.AuthActionRead, Path: "p"}, {Action: conf.AuthActionAPI}}
	case 3:
		m.HTTPExclude = []conf.AuthInternalUserPermission{{Action: conf.AuthActionPublish, Path: "q"}}
	}
	defer verifC02Server(m, st)()
	user, err := m.Authenticate(req)
	if verifC02Excluded(m.HTTPExclude, req) {
		vnd.Assert(err == nil && (verifC02Srv.calls == 0 || st == 199), "an excluded action/path is admitted without asking the server")
	} else {
		vnd.Assert(verifC02Srv.calls == 1, "the server is asked exactly once")
		vnd.Assert((err == nil) == (st >= 200 && st <= 299), "a request that is not excluded is admitted iff the server answers 2xx")
		vnd.Assert(err != nil || user == req.Credentials.User, "an admitted request reports the supplied user")
	}
	if err != nil {
		vnd.Assert(err.AskCredentials == (req.EnableAskCredentials && req.Credentials.User == "" && req.Credentials.Pass == "" && wantToken == ""), "credentials are asked for only when none were supplied in any place")
	}
	vnd.Cover(err == nil && !verifC02Excluded(m.HTTPExclude, req), "admitted by the server")
	vnd.Cover(err != nil && st == 199, "server unreachable")
	vnd.Cover(err != nil && st >= 300, "refused by the server")
	vnd.Cover(err != nil && err.AskCredentials, "credentials asked for")
}

// VerifHTTPBody: the http method — what the server is told. One of user, password, token, path is an
// arbitrary ASCII byte (or empty), the others are fixed.
func VerifHTTPBody() {
	m := &Manager{Method: conf.AuthMethodHTTP}
	req := &Request{
		Action:      []conf.AuthAction{conf.AuthActionRead, conf.AuthActionAPI}[vnd.Choose("action", 2)],
		Path:        "p",
		Protocol:    []Protocol{ProtocolRTSP, ProtocolRTMP, ProtocolHLS, ProtocolSRT}[vnd.Choose("protocol", 4)],
		UserAgent:   "ua",
		Credentials: &Credentials{User: "u", Pass: verifC02OptX("pass"), Token: verifC02OptX("token")},
		IP:          net.IP{192, 0, 2, 7},
	}
	wild := vnd.String("wild", vnd.Choose("wildLen", 2))
	for i := 0; i < len(wild); i++ {
		vnd.Assume(wild[i] < 0x80)
	}
	switch vnd.Choose("wildField", 4) {
	case 0:
		req.Credentials.User = wild
	case 1:
		req.Credentials.Pass = wild
	case 2:
		req.Credentials.Token = wild
	default:
		req.Path = wild
	}
	wantToken := verifC02Token(req, verifC02Query(req), false)
	verifC02Srv.resp = nil
	defer verifC02Server(m, 200)()
	_, err := m.Authenticate(req)
	vnd.Assert(err == nil && verifC02Srv.calls == 1, "the server is asked once and its 200 admits")
	b := verifC02Srv.body
	want := []struct{ key, val string }{
		{"ip", "192.0.2.7"}, {"user", req.Credentials.User}, {"password", req.Credentials.Pass}, {"token", wantToken},
		{"action", string(req.Action)}, {"path", req.Path}, {"protocol", string(req.Protocol)},
	}
	vnd.Assert(len(b) > 0 && b[0] == '{', "the POST body is a JSON object")
	b = b[1:]
	for _, kv := range want {
		k := `"` + kv.key + `":`
		vnd.Assert(len(b) >= len(k) && string(b[:len(k)]) == k, "the POST carries ip, user, password, token, action, path, protocol under the documented keys")
		val, rest, ok := verifC02JSONString(b[len(k):])
		vnd.Assert(ok && string(val) == kv.val, "the POST carries the request's own ip, user, password, token, action, path and protocol")
		vnd.Assert(len(rest) > 0 && rest[0] == ',', "more fields follow")
		b = rest[1:]
	}
	tail := `"id":null,"query":`
	vnd.Assert(len(b) >= len(tail) && string(b[:len(tail)]) == tail, "id and query follow")
	val, _, ok := verifC02JSONString(b[len(tail):])
	vnd.Assert(ok && string(val) == req.Query, "the POST carries the request's query")
	vnd.Cover(wantToken == "qt", "token taken from the query")
	vnd.Cover(len(wild) == 1 && wantToken == wild, "token taken from the password or token field")
}
