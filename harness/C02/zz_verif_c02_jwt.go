package auth

import (
	"context"
	"crypto/rand"
	"crypto/rsa"
	"errors"
	"net"
	"net/http"
	"net/http/httptest"
	"time"

	"github.com/MicahParks/jwkset"
	"github.com/golang-jwt/jwt/v5"

	"github.com/bluenviron/mediamtx/internal/conf"
	"github.com/bluenviron/mediamtx/internal/zzverif/vnd"
)

// permission claims a token may carry
var verifC02PermMenu = [][]conf.AuthInternalUserPermission{
	{{Action: conf.AuthActionRead}},
	{{Action: conf.AuthActionRead, Path: "p"}},
	{{Action: conf.AuthActionPublish}},
	{},
	{{Action: conf.AuthActionAPI}, {Action: conf.AuthActionPlayback, Path: "q"}},
}

var verifC02JWT struct{ parsed int }

// under the engine tokens are tags "tok-<kind>-<claim>" (kind: o verifies, b bad signature, i wrong issuer,
// a wrong audience) and jwt.ParseWithClaims is this function, given the issuer and audience the code asked
// the library to require; natively tokens are real and the library runs
func verifJWTParse(token string, cc *jwtClaims, issuer, audience string) error {
	verifC02JWT.parsed++
	if len(token) != 7 || token[:4] != "tok-" {
		return errors.New("token is malformed")
	}
	kind := token[4]
	if kind == 'b' || (kind == 'i' && issuer != "") || (kind == 'a' && audience != "") {
		return errors.New("token is invalid")
	}
	if (issuer != "" && issuer != "iss") || (audience != "" && audience != "aud") {
		return errors.New("token is invalid") // every token carries iss "iss" and aud "aud" unless marked
	}
	cc.Subject = "subj"
	cc.permissions = verifC02PermMenu[int(token[6]-'0')]
	return nil
}

type verifC02Keys struct {
	good, other *rsa.PrivateKey
	jwks        *httptest.Server
}

func verifC02NewKeys() *verifC02Keys {
	k := &verifC02Keys{}
	k.good, _ = rsa.GenerateKey(rand.Reader, 2048)
	k.other, _ = rsa.GenerateKey(rand.Reader, 2048)
	k.jwks = httptest.NewServer(http.HandlerFunc(func(w http.ResponseWriter, r *http.Request) {
		jwk, _ := jwkset.NewJWKFromKey(k.good, jwkset.JWKOptions{Metadata: jwkset.JWKMetadataOptions{KID: "kid"}})
		set := jwkset.NewMemoryStorage()
		set.KeyWrite(context.Background(), jwk) //nolint:errcheck
		b, _ := set.JSONPublic(r.Context())
		w.Header().Set("Content-Type", "application/json")
		w.Write(b) //nolint:errcheck
	}))
	return k
}

// verifC02MakeToken: kind 'o' a token that verifies, 'b' one signed with a key the JWKS does not list,
// 'i' one from another issuer, 'a' one for another audience; all carry permission menu entry idx.
func verifC02MakeToken(k *verifC02Keys, kind byte, idx int) string {
	if vnd.Symbolic() {
		return "tok-" + string(rune(kind)) + "-" + string(rune('0'+idx))
	}
	claims := jwt.MapClaims{"sub": "subj", "exp": time.Now().Add(time.Hour).Unix(), "mediamtx_permissions": verifC02PermMenu[idx], "iss": "iss", "aud": "aud"}
	if kind == 'i' {
		claims["iss"] = "evil"
	}
	if kind == 'a' {
		claims["aud"] = "evil"
	}
	t := jwt.NewWithClaims(jwt.SigningMethodRS256, claims)
	t.Header[jwkset.HeaderKID] = "kid"
	key := k.good
	if kind == 'b' {
		key = k.other
	}
	s, _ := t.SignedString(key)
	return s
}

func verifC02Grants(perms []conf.AuthInternalUserPermission, req *Request) bool {
	return verifC02Excluded(perms, req) // same matching rule: action, and path where the action has one
}

// VerifJWTAuth: the jwt method. The token is valid or not, carries one of five permission claims, and is
// placed in the token field, the password, the query (token= or jwt=) or nowhere.
func VerifJWTAuth() {
	verifC02JWT.parsed = 0
	var keys *verifC02Keys
	m := &Manager{Method: conf.AuthMethodJWT, JWTClaimKey: "mediamtx_permissions", JWTJWKS: "http://jwks.example/keys"}
	if !vnd.Symbolic() {
		keys = verifC02NewKeys()
		defer keys.jwks.Close()
		m.JWTJWKS = keys.jwks.URL
	}
	if vnd.Bool("issuerConfigured") {
		m.JWTIssuer = "iss"
	}
	if vnd.Bool("audienceConfigured") {
		m.JWTAudience = "aud"
	}
	inQuery := vnd.Bool("jwtInHTTPQuery")
	m.JWTInHTTPQuery = &inQuery
	if vnd.Bool("exclude") {
		m.JWTExclude = []conf.AuthInternalUserPermission{{Action: conf.AuthActionRead, Path: "q"}, {Action: conf.AuthActionMetrics}}
	}
	kind := []byte{'o', 'b', 'i', 'a'}[vnd.Choose("tokenKind", 4)]
	idx := vnd.Choose("claim", len(verifC02PermMenu))
	tok := verifC02MakeToken(keys, kind, idx)
	// a token verifies iff it is signed by a listed key and meets the issuer and audience the server is configured to require
	valid := kind == 'o' || (kind == 'i' && m.JWTIssuer == "") || (kind == 'a' && m.JWTAudience == "")
	req := &Request{
		Action:               verifC02Actions[vnd.Choose("action", len(verifC02Actions))],
		Path:                 []string{"p", "q"}[vnd.Choose("path", 2)],
		Protocol:             []Protocol{ProtocolRTSP, ProtocolHLS}[vnd.Choose("protocol", 2)],
		Credentials:          &Credentials{},
		IP:                   net.IP{192, 0, 2, 7},
		EnableAskCredentials: vnd.Bool("ask"),
	}
	presented := tok
	switch vnd.Choose("placement", 5) {
	case 0:
		req.Credentials.Token = tok
	case 1:
		req.Credentials.User, req.Credentials.Pass = "u", tok
	case 2:
		req.Query = "token=" + tok
		presented = verifC02Token(req, tok, inQuery)
	case 3:
		req.Query = "a=b&jwt=" + tok
		presented = verifC02Token(req, tok, inQuery)
	default:
		req.Credentials.User = "u"
		presented = ""
	}
	user, err := m.Authenticate(req)

	excluded := verifC02Excluded(m.JWTExclude, req)
	switch {
	case excluded:
		vnd.Assert(err == nil, "an excluded action/path is admitted without a token")
	case presented == "":
		vnd.Assert(err != nil, "without a token in an accepted place the request is refused")
	default:
		want := valid && verifC02Grants(verifC02PermMenu[idx], req)
		vnd.Assert((err == nil) == want, "admitted iff the token verifies (key, configured issuer and audience) and its permission claim grants the action on the path")
		vnd.Assert(err != nil || user == "subj", "the token's subject is reported as user")
	}
	if vnd.Symbolic() && !excluded && presented != "" {
		vnd.Assert(verifC02JWT.parsed == 1, "the token is verified once")
	}
	if err != nil {
		vnd.Assert(err.AskCredentials == (req.EnableAskCredentials && req.Credentials.User == "" && req.Credentials.Pass == "" && presented == ""), "credentials are asked for only when none were supplied in any place")
	}
	vnd.Cover(err == nil && !excluded, "admitted by token")
	vnd.Cover(err != nil && valid && presented != "", "valid token without the permission")
	vnd.Cover(err == nil && req.Query != "" && req.Protocol == ProtocolHLS && !excluded, "token accepted from the query of an HTTP protocol")
}
