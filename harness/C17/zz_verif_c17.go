package stream

import (
	"sync"
	"sync/atomic"
	"time"

	"github.com/bluenviron/gortsplib/v5/pkg/description"
	"github.com/bluenviron/gortsplib/v5/pkg/format"
	"github.com/pion/rtp"

	"github.com/bluenviron/mediamtx/internal/errordumper"
	"github.com/bluenviron/mediamtx/internal/logger"
	"github.com/bluenviron/mediamtx/internal/unit"
	"github.com/bluenviron/mediamtx/internal/zzverif/vnd"
)

type verifC17Log struct{}

func (verifC17Log) Log(logger.Level, string, ...any) {}

// verifC17Pause lets the readers empty their queues: one tick of the virtual clock, or real time natively
func verifC17Pause() {
	if vnd.Symbolic() {
		time.Sleep(time.Millisecond)
	} else {
		time.Sleep(60 * time.Millisecond)
	}
}

type verifC17Got struct {
	format int
	pts    int64
}

type verifC17Reader struct {
	r        *Reader
	mu       sync.Mutex
	got      []verifC17Got
	subs     [2]bool // formats subscribed
	attached bool
	occ      int // reference: units queued and not yet taken
	want     []verifC17Got
	dropped  uint64
	written  []verifC17Got // every unit of its formats written while it was attached
}

// VerifFanOut: one stream with two formats and up to two readers (the first subscribed to format 0, the
// second to both), queues of 1, 2 or 4 units. Any sequence of `steps` actions among: write a unit of format
// 0, write a unit of format 1, let the readers run, remove the first reader. Each reader receives exactly
// the units of its formats that were written while its queue had room, in write order, once; every other
// unit is counted as discarded; nothing reaches a removed reader.
func VerifFanOut() {
	vnd.GoMode("threads")
	q := []int{1, 2, 4}[vnd.Choose("queue", 3)]
	media := &description.Media{}
	formats := []format.Format{&format.Opus{}, &format.G711{}}
	var inBytes, outBytes atomic.Uint64
	errs := &errordumper.Dumper{}
	sfs := make([]*streamFormat, 2)
	ssfs := make([]*subStreamFormat, 2)
	for i := range sfs {
		sfs[i] = &streamFormat{
			origFormat: formats[i], outFormat: formats[i], inboundBytes: &inBytes, outboundBytes: &outBytes,
			inboundFramesInError: errs, parent: verifC17Log{},
			writeRTSP:     func([]*rtp.Packet, time.Time) {},
			updateOutDesc: func(f func()) { f() },
			formatUpdater: func(format.Format, unit.Payload, func(func())) {},
			unitRemuxer:   func(_ format.Format, p unit.Payload) unit.Payload { return p },
			onDatas:       map[*Reader]OnDataFunc{},
		}
		ssfs[i] = &subStreamFormat{inFormat: formats[i], streamFormat: sfs[i]}
	}
	s := &Stream{WriteQueueSize: q, Parent: verifC17Log{},
		medias:     map[*description.Media]*streamMedia{media: {formats: map[format.Format]*streamFormat{formats[0]: sfs[0], formats[1]: sfs[1]}}},
		readers:    map[*Reader]struct{}{},
		hasReaders: make(chan struct{})}

	nReaders := 1 + vnd.Choose("secondReader", 2)
	rs := make([]*verifC17Reader, nReaders)
	for i := range rs {
		vr := &verifC17Reader{r: &Reader{Parent: verifC17Log{}}, attached: true}
		vr.subs[0] = true
		vr.subs[1] = i == 1
		for f := 0; f < 2; f++ {
			if vr.subs[f] {
				f := f
				vr.r.OnData(media, formats[f], func(u *unit.Unit) error {
					if !vnd.Symbolic() {
						time.Sleep(3 * time.Millisecond) // a real reader's callback takes time (it writes to a socket)
					}
					vr.mu.Lock()
					vr.got = append(vr.got, verifC17Got{f, u.PTS})
					vr.mu.Unlock()
					return nil
				})
			}
		}
		s.AddReader(vr.r)
		rs[i] = vr
	}

	steps := vnd.Bound("steps", 4)
	removedLen := -1
	pts := vnd.Int64("firstPTS")
	for i := 0; i < steps; i++ {
		switch vnd.Choose("action", 4) {
		case 0, 1: // write a unit
			f := 0
			if i >= 0 && vnd.Bool("format1") {
				f = 1
			}
			d := vnd.Int64("ptsStep") // presentation timestamps: any strictly increasing sequence
			vnd.Assume(d > 0 && d < 1<<40 && pts > -(1<<62) && pts < 1<<62)
			pts += d
			ssfs[f].writeUnit(&unit.Unit{PTS: pts})
			if !vnd.Symbolic() {
				time.Sleep(500 * time.Microsecond) // publishers write at media pace: a waiting reader gets to take the unit
			}
			for _, vr := range rs {
				if !vr.attached || !vr.subs[f] {
					continue
				}
				vr.written = append(vr.written, verifC17Got{f, pts})
				if vr.occ == q {
					vr.dropped++
				} else {
					vr.occ++
					vr.want = append(vr.want, verifC17Got{f, pts})
				}
			}
		case 2: // the readers' goroutines run until their queues are empty
			verifC17Pause()
			for _, vr := range rs {
				vr.occ = 0
			}
		default: // the first reader leaves
			vnd.Assume(rs[0].attached)
			s.RemoveReader(rs[0].r) // waits for the reader's goroutine: the other readers run meanwhile
			for _, vr := range rs {
				vr.occ = 0
			}
			rs[0].attached = false
			rs[0].mu.Lock()
			removedLen = len(rs[0].got)
			rs[0].mu.Unlock()
		}
	}
	verifC17Pause()

	for i, vr := range rs {
		vr.mu.Lock()
		got := append([]verifC17Got(nil), vr.got...)
		vr.mu.Unlock()
		for k, g := range got {
			vnd.Assert(vr.subs[g.format], "a reader never receives units of a format it did not subscribe to")
			vnd.Assert(k == 0 || got[k-1].pts < g.pts, "units arrive in write order, each at most once")
		}
		// what arrives is a subsequence of what was written for this reader
		w := 0
		for _, g := range got {
			for w < len(vr.written) && vr.written[w] != g {
				w++
			}
			vnd.Assert(w < len(vr.written), "a reader receives only units that were written to its formats while it was attached, in write order")
			w++
		}
		if vr.attached {
			vnd.Assert(uint64(len(got))+vr.r.OutboundFramesDiscarded() == uint64(len(vr.written)), "every unit is either delivered or counted as discarded")
		} else {
			vnd.Assert(i == 0 && len(got) == removedLen, "after a reader is removed its callbacks never run again")
		}
		if vnd.Symbolic() {
			// under the cooperative scheduler the queue occupancy is known exactly
			if vr.attached {
				vnd.Assert(len(got) == len(vr.want) && vr.r.OutboundFramesDiscarded() == vr.dropped, "units are skipped only when the queue is full, and every skipped unit is counted")
			}
			for k := range got {
				vnd.Assert(k < len(vr.want) && got[k] == vr.want[k], "a reader receives exactly the units written while its queue had room")
			}
		}
	}
	vnd.Cover(rs[0].attached && rs[0].r.OutboundFramesDiscarded() > 0, "a unit was discarded")
	vnd.Cover(len(rs) == 2 && len(rs[1].got) >= 2, "second reader got two units")
	vnd.Cover(!rs[0].attached && len(rs[0].got) > 0, "reader removed after receiving")
}
