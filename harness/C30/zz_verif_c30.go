package recordcleaner

import (
	"os"
	"regexp"
	"time"

	"github.com/bluenviron/mediamtx/internal/conf"
	"github.com/bluenviron/mediamtx/internal/logger"
	"github.com/bluenviron/mediamtx/internal/zzverif/vnd"
)

type verifLog struct{}

func (verifLog) Log(logger.Level, string, ...any) {}

func verifExists(p string) bool {
	_, err := os.Stat(p)
	return err == nil
}

// VerifCleanerDeletesOnlyExpired: one pass (doRun) over a directory with three segments of the path,
// a segment of another path, a foreign file and a look-alike name; arbitrary clock and retention.
func VerifCleanerDeletesOnlyExpired() {
	time.Local = time.UTC
	dir, err := os.MkdirTemp("", "verif-c30")
	if err != nil {
		vnd.Assume(false)
	}
	defer os.RemoveAll(dir)
	base := int64(1700000000) // 2023-11-14T22:13:20Z
	starts := []int64{base, base + 3600, base + 7200}
	names := []string{"2023-11-14_22-13-20-000000.mp4", "2023-11-14_23-13-20-000000.mp4", "2023-11-15_00-13-20-000000.mp4"}
	if os.MkdirAll(dir+"/cam", 0o755) != nil || os.MkdirAll(dir+"/other", 0o755) != nil {
		vnd.Assume(false)
	}
	var segs []string
	for _, n := range names {
		segs = append(segs, dir+"/cam/"+n)
	}
	others := []string{dir + "/other/" + names[0], dir + "/cam/notes.txt", dir + "/cam/" + names[0] + ".bak"}
	for _, f := range append(append([]string{}, segs...), others...) {
		if os.WriteFile(f, []byte("x"), 0o644) != nil {
			vnd.Assume(false)
		}
	}
	nowSec := vnd.Int64("now")
	vnd.Assume(nowSec >= base-10000 && nowSec <= base+20000)
	keepSec := vnd.Int64("deleteAfterSeconds")
	vnd.Assume(keepSec >= 0 && keepSec <= 20000)
	pconf := &conf.Path{Name: "cam", RecordPath: dir + "/%path/%Y-%m-%d_%H-%M-%S-%f", RecordFormat: conf.RecordFormatFMP4,
		RecordDeleteAfter: conf.Duration(time.Duration(keepSec) * time.Second)}
	confs := map[string]*conf.Path{"cam": pconf}
	// optionally a catch-all configuration with its own retention writes to the same directory layout:
	// 'cam' (resolved to its own configuration) and 'other' (resolved to the catch-all) share the tree
	othersKeep := int64(-1)
	if vnd.Bool("catchAllConfigured") {
		othersKeep = vnd.Int64("catchAllDeleteAfterSeconds")
		vnd.Assume(othersKeep >= 0 && othersKeep <= 20000)
		confs["all_others"] = &conf.Path{Name: "all_others", Regexp: regexp.MustCompile("^.*$"), RecordPath: pconf.RecordPath, RecordFormat: conf.RecordFormatFMP4,
			RecordDeleteAfter: conf.Duration(time.Duration(othersKeep) * time.Second)}
	}
	c := &Cleaner{PathConfs: confs, Parent: verifLog{}}
	timeNow = func() time.Time { return time.Unix(nowSec, 0) }
	defer func() { timeNow = time.Now }()
	c.doRun() // one pass of the cleaner

	for i, s := range segs {
		gone := !verifExists(s)
		if gone {
			vnd.Assert(keepSec != 0 && starts[i] <= nowSec-keepSec, "a segment is deleted only if retention is set and it started before now minus the delay")
		}
		if keepSec != 0 && starts[i] < nowSec-keepSec {
			vnd.Assert(gone, "every expired segment is deleted on the pass")
		}
	}
	// the other path's segment (same start as the first one) follows the catch-all's retention, if there is one
	if !verifExists(others[0]) {
		vnd.Assert(othersKeep > 0 && starts[0] <= nowSec-othersKeep, "a segment of another path is deleted only under that path's own configuration and retention")
	}
	for _, f := range others[1:] {
		vnd.Assert(verifExists(f), "files that are not segments are never deleted")
	}
	vnd.Cover(!verifExists(segs[0]) && verifExists(segs[2]), "oldest deleted, newest kept")
	vnd.Cover(keepSec == 0, "retention disabled")
}
