package recordcleaner

import (
	"os"
	"time"

	"github.com/bluenviron/mediamtx/internal/conf"
	"github.com/bluenviron/mediamtx/internal/logger"
	"github.com/bluenviron/mediamtx/internal/zzverif/vnd"
)

type verifLog struct{}

func (verifLog) Log(logger.Level, string, ...any) {}

func verifExists(p string) bool {
	_, err := os.Stat(p)
	return err == nil
}

// VerifCleanerDeletesOnlyExpired: one pass over a directory with three segments of the path,
// a segment of another path, a foreign file and a look-alike name; arbitrary clock and retention.
func VerifCleanerDeletesOnlyExpired() {
	time.Local = time.UTC
	dir, err := os.MkdirTemp("", "verif-c30")
	if err != nil {
		vnd.Assume(false)
	}
	defer os.RemoveAll(dir)
	base := int64(1700000000) // 2023-11-14T22:13:20Z
	starts := []int64{base, base + 3600, base + 7200}
	names := []string{"2023-11-14_22-13-20-000000.mp4", "2023-11-14_23-13-20-000000.mp4", "2023-11-15_00-13-20-000000.mp4"}
	if os.MkdirAll(dir+"/cam", 0o755) != nil || os.MkdirAll(dir+"/other", 0o755) != nil {
		vnd.Assume(false)
	}
	var segs []string
	for _, n := range names {
		segs = append(segs, dir+"/cam/"+n)
	}
	others := []string{dir + "/other/" + names[0], dir + "/cam/notes.txt", dir + "/cam/" + names[0] + ".bak"}
	for _, f := range append(append([]string{}, segs...), others...) {
		if os.WriteFile(f, []byte("x"), 0o644) != nil {
			vnd.Assume(false)
		}
	}
	nowSec := vnd.Int64("now")
	vnd.Assume(nowSec >= base-10000 && nowSec <= base+20000)
	keepSec := vnd.Int64("deleteAfterSeconds")
	vnd.Assume(keepSec >= 0 && keepSec <= 20000)
	pconf := &conf.Path{Name: "cam", RecordPath: dir + "/%path/%Y-%m-%d_%H-%M-%S-%f", RecordFormat: conf.RecordFormatFMP4,
		RecordDeleteAfter: conf.Duration(time.Duration(keepSec) * time.Second)}
	c := &Cleaner{PathConfs: map[string]*conf.Path{"cam": pconf}, Parent: verifLog{}}
	c.processPath(time.Unix(nowSec, 0), "cam") //nolint:errcheck

	for i, s := range segs {
		gone := !verifExists(s)
		if gone {
			vnd.Assert(keepSec != 0 && starts[i] <= nowSec-keepSec, "a segment is deleted only if retention is set and it started before now minus the delay")
		}
		if keepSec != 0 && starts[i] < nowSec-keepSec {
			vnd.Assert(gone, "every expired segment is deleted on the pass")
		}
	}
	for _, f := range others {
		vnd.Assert(verifExists(f), "files that are not segments of the path are never deleted")
	}
	vnd.Cover(!verifExists(segs[0]) && verifExists(segs[2]), "oldest deleted, newest kept")
	vnd.Cover(keepSec == 0, "retention disabled")
}
