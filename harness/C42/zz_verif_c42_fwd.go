package forward

import (
	"strconv"

	"github.com/bluenviron/mediamtx/internal/zzverif/vnd"
)

var verifTokens = []string{"a", "$", "G", "1", "0", "$G", "$G1", "$G2", "$G10", "$G11", "$MTX_QUERY", "$MTX_", "$MTX_PATH"}

func verifPathByte(name string) byte {
	c := vnd.Byte(name)
	vnd.Assume((c >= '0' && c <= '9') || (c >= 'a' && c <= 'z') || (c >= 'A' && c <= 'Z') || c == '_' || c == '-' || c == '.' || c == '/')
	return c
}

// verifMatches builds 11 capture groups (index 0 is the whole match), each 1 or 2 bytes of the path alphabet; groups 2 and 10 may be empty.
func verifMatches() []string {
	m := make([]string, 12)
	for i := range m {
		n := 1 + i%2
		if (i == 2 || i == 10) && vnd.Bool("emptyGroup") { // an optional group that did not take part in the match
			n = 0
		}
		b := make([]byte, n)
		for j := range b {
			b[j] = verifPathByte("g")
		}
		m[i] = string(b)
	}
	return m
}

func verifTemplate() string {
	t := ""
	n := vnd.Bound("tokens", 2)
	for i := 0; i < n; i++ {
		t += verifTokens[vnd.Choose("tok", len(verifTokens))]
	}
	return t
}

// verifSubst is the reference: one left-to-right pass, longest valid placeholder first.
func verifSubst(t string, matches []string, named string, namedVal string) string {
	out := ""
	for i := 0; i < len(t); {
		if len(t)-i >= len(named) && t[i:i+len(named)] == named {
			out += namedVal
			i += len(named)
			continue
		}
		if len(t)-i >= 3 && t[i] == '$' && t[i+1] == 'G' {
			best, bestLen := 0, 0
			for l := 1; l <= 2 && i+2+l <= len(t); l++ {
				n, err := strconv.Atoi(t[i+2 : i+2+l])
				if err == nil && t[i+2] != '0' && n >= 1 && n < len(matches) {
					best, bestLen = n, l
				}
			}
			if bestLen > 0 {
				out += matches[best]
				i += 2 + bestLen
				continue
			}
		}
		out += t[i : i+1]
		i++
	}
	return out
}

// VerifResolveDest: $G<n> and $MTX_PATH in forward destinations.
func VerifResolveDest() {
	t := verifTemplate()
	m := verifMatches()
	p := string([]byte{verifPathByte("p"), verifPathByte("p")})
	got := resolveDest(t, p, m)
	want := verifSubst(t, m, "$MTX_PATH", p)
	vnd.Assert(got == want, "dest: every placeholder replaced exactly once, nothing replaced inside inserted values")
	vnd.Cover(got != t, "a substitution happened")
}
