//go:build !windows

package externalcmd

import (
	"os"
	"strconv"
	"strings"

	"github.com/bluenviron/mediamtx/internal/zzverif/vnd"
)

// VerifExitStatus: a hook that exits with a non-zero status is reported as failed with that status.
func VerifExitStatus() {
	codes := []int{0, 1, 3, 255}
	code := codes[vnd.Choose("code", len(codes))]
	c := &Cmd{terminate: make(chan struct{})}
	err := c.runOSSpecific("sh -c 'exit "+strconv.Itoa(code)+"'", nil)
	vnd.Assert((err == nil) == (code == 0), "a hook is reported as failed iff it exits with a non-zero status")
	if err != nil {
		vnd.Assert(strings.Contains(err.Error(), strconv.Itoa(code)), "the failure names the exit status")
	}
	vnd.Cover(code == 255, "status 255")
}

// VerifHookArgs: a value referenced in the command line reaches the child as one verbatim argument.
func VerifHookArgs() {
	n := 1 + vnd.Choose("len", vnd.Bound("value_len", 3))
	value := vnd.String("value", n)
	for i := 0; i < n; i++ {
		vnd.Assume(value[i] != 0) // NUL cannot be passed to a process
	}
	refs := []string{"$V", `"$V"`, "${V}", "pre$V"}
	ri := vnd.Choose("ref", len(refs))
	expect := value
	if ri == 3 {
		expect = "pre" + value
	}
	c := &Cmd{Env: Environment{"V": value}, terminate: make(chan struct{})}
	// the child: exits 0 iff it received exactly one argument equal to $VERIF_EXPECT
	const scriptPath = "/tmp/verif-argcheck.sh"
	if os.WriteFile(scriptPath, []byte("test $# -eq 1 && test \"$1\" = \"$VERIF_EXPECT\"\n"), 0o700) != nil {
		vnd.Assume(false)
	}
	err := c.runOSSpecific("sh "+scriptPath+" "+refs[ri], []string{"PATH=/usr/bin:/bin", "VERIF_EXPECT=" + expect})
	vnd.Assert(err == nil, "the value arrives as exactly one argument, byte for byte")
	vnd.Cover(n == 3, "three-byte value")
}
