#!/bin/sh
# C24 is decided by engine 2 (integer-theory encoding of the loop-free scaling kernels)
exec /verif/bin/symgo intenc -tier "$1"
