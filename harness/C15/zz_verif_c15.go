package core

import (
	"context"
	"regexp"
	"time"

	"github.com/bluenviron/mediamtx/internal/conf"
	"github.com/bluenviron/mediamtx/internal/logger"
	"github.com/bluenviron/mediamtx/internal/zzverif/vnd"
)

func verifRegexpConf(name string) *conf.Path {
	c := &conf.Path{Name: name, Source: "publisher", RecordPath: "./rec/%path/%Y"}
	switch {
	case name == "all_others":
		c.Regexp = regexp.MustCompile("^.*$")
	case name[0] == '~':
		c.Regexp = regexp.MustCompile(name[1:])
	}
	return c
}

// the capture groups ($G1..) of a match; static configurations and the catch-all have none
func verifGroups(m []string) []string {
	if len(m) <= 1 {
		return nil
	}
	return m[1:]
}

type verifC15Log struct{}

func (verifC15Log) Log(logger.Level, string, ...any) {}

type verifLivePath struct {
	pa     *path
	closed *bool
}

func verifLive(name, confName string, c *conf.Path, matches []string) verifLivePath {
	closed := false
	done := make(chan struct{})
	close(done) // the path's goroutine is not part of this step
	pa := &path{name: name, confName: confName, conf: c, matches: matches, ctx: context.Background(),
		ctxCancel: func() { closed = true }, done: done, chReloadConf: make(chan *conf.Path, 4)}
	return verifLivePath{pa, &closed}
}

func verifReloads(pa *path) []*conf.Path {
	var out []*conf.Path
	if vnd.Symbolic() {
		for len(pa.chReloadConf) > 0 {
			out = append(out, <-pa.chReloadConf)
		}
		return out
	}
	for {
		select {
		case c := <-pa.chReloadConf:
			out = append(out, c)
		case <-time.After(200 * time.Millisecond):
			return out
		}
	}
}

func verifSameStrings(a, b []string) bool {
	if len(a) != len(b) {
		return false
	}
	for i := range a {
		if a[i] != b[i] {
			return false
		}
	}
	return true
}

// VerifReloadReconcilesPath: one reload step with one live path created by a regular-expression, static or catch-all configuration.
func VerifReloadReconcilesPath() {
	names := []string{"~^cam(\\d)$", "~^(c)am1$", "~^nomatch$", "~^ca[m](\\d)$", "cam1", "all_others"}
	oldName := []string{names[0], "cam1", "all_others"}[vnd.Choose("oldName", 3)]
	old := verifRegexpConf(oldName)
	_, oldMatches, oerr := conf.FindPathConf(map[string]*conf.Path{oldName: old}, "cam1")
	vnd.Assume(oerr == nil)
	live := verifLive("cam1", oldName, old, oldMatches)
	// a static configuration gets its path created by the reload: the manager's context is already
	// cancelled so that (natively) the new path's event loop exits at once
	pmCtx, pmCancel := context.WithCancel(context.Background())
	pmCancel()
	pm := &pathManager{ctx: pmCtx, parent: verifC15Log{}, pathConfs: map[string]*conf.Path{oldName: old}, paths: map[string]*path{"cam1": live.pa}}

	newName := names[vnd.Choose("newName", len(names))]
	nw := verifRegexpConf(newName)
	change := vnd.Choose("change", 3)
	switch change {
	case 1: // a hot-reloadable field
		nw.RecordDeleteAfter = conf.Duration(vnd.Int64("deleteAfter"))
		vnd.Assume(nw.RecordDeleteAfter != old.RecordDeleteAfter)
	case 2: // a field that needs the path to be recreated
		nw.MaxReaders = vnd.Int("maxReaders")
		vnd.Assume(nw.MaxReaders != old.MaxReaders)
	}
	newPaths := map[string]*conf.Path{newName: nw}
	pm.doReloadConf(newPaths)

	wantConf, wantMatches, err := conf.FindPathConf(newPaths, "cam1")
	cur, alive := pm.paths["cam1"]
	alive = alive && cur == live.pa
	reloads := verifReloads(live.pa)
	switch {
	case err != nil:
		vnd.Assert(!alive && *live.closed, "a live path whose name no longer resolves is closed")
	case change == 2:
		vnd.Assert(!alive && *live.closed, "a change outside the hot-reloadable fields recreates the path")
	case !alive:
		// recreating a path is always a correct reconciliation; it is only excluded where the property
		// promises that clients stay connected: same capture groups and only hot-reloadable changes
		vnd.Assert(*live.closed && !verifSameStrings(verifGroups(live.pa.matches), verifGroups(wantMatches)), "a change limited to hot-reloadable fields keeps the path")
	default:
		vnd.Assert(!*live.closed, "a path kept in the manager is not closed")
		vnd.Assert(live.pa.confName == wantConf.Name, "the surviving path is attached to the configuration its name resolves to")
		if wantConf.Name != oldName || change == 1 {
			vnd.Assert(len(reloads) == 1 && reloads[0] == wantConf, "the surviving path is handed the new configuration exactly once")
		} else {
			vnd.Assert(len(reloads) == 0, "an unchanged configuration is not re-applied")
		}
		vnd.Assert(verifSameStrings(verifGroups(live.pa.matches), verifGroups(wantMatches)), "the surviving path runs with the capture groups its name resolves to")
	}
	if err == nil && wantConf.Regexp == nil {
		_, present := pm.paths["cam1"]
		vnd.Assert(present, "a static configuration has its path after the reload (kept or created anew)")
	}
	vnd.Cover(err == nil && newName != oldName && change != 2, "path migrates to another regular-expression configuration")
	vnd.Cover(err != nil, "configuration gone")
	vnd.Cover(err == nil && alive && oldName == "all_others" && newName == "cam1" && change != 2, "path kept when it moves from the catch-all to a static configuration")
}
