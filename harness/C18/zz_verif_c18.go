package core

import (
	"github.com/bluenviron/mediamtx/internal/conf"
	"github.com/bluenviron/mediamtx/internal/defs"
	"github.com/bluenviron/mediamtx/internal/forward"
	"github.com/bluenviron/mediamtx/internal/logger"
	"github.com/bluenviron/mediamtx/internal/stream"
	"github.com/bluenviron/mediamtx/internal/zzverif/vnd"
)

type verifReader struct {
	id     int
	closed int
}

func (r *verifReader) Log(logger.Level, string, ...any)     {}
func (r *verifReader) Close()                               { r.closed++ }
func (r *verifReader) APIReaderDescribe() *defs.APIPathReader { return nil }

type verifPathParent struct{ notReady int }

func (p *verifPathParent) Log(logger.Level, string, ...any) {}
func (p *verifPathParent) setPathReady(*path)               {}
func (p *verifPathParent) setPathNotReady(*path)            { p.notReady++ }
func (p *verifPathParent) closePathIfIdle(*path)            {}
func (p *verifPathParent) removePath(*path)                 {}
func (p *verifPathParent) AddReader(defs.PathAddReaderReq) (*defs.PathAddReaderRes, error) {
	return nil, nil
}

func verifPathWithReaders(n int) (*path, []*verifReader) {
	pa := &path{
		conf:           &conf.Path{Source: "publisher", MaxReaders: vnd.Int("maxReaders")},
		name:           "p",
		parent:         &verifPathParent{},
		readers:        map[defs.Reader]struct{}{},
		stream:         &stream.Stream{},
		forwardManager: &forward.Manager{},
	}
	rs := make([]*verifReader, n)
	for i := range rs {
		rs[i] = &verifReader{id: i}
		pa.readers[rs[i]] = struct{}{}
	}
	return pa, rs
}

// VerifAddReaderLimit: one add-reader step from any state within the limit.
func VerifAddReaderLimit() {
	n := vnd.Choose("readers", vnd.Bound("readers", 3)+1)
	pa, rs := verifPathWithReaders(n)
	vnd.Assume(pa.conf.MaxReaders >= 0)
	vnd.Assume(pa.conf.MaxReaders == 0 || n <= pa.conf.MaxReaders) // invariant before the step
	var author defs.Reader
	existing := n > 0 && vnd.Bool("alreadyAttached")
	if existing {
		author = rs[vnd.Choose("which", n)]
	} else {
		author = &verifReader{id: 99}
	}
	res := make(chan defs.PathAddReaderRes, 2)
	pa.doAddReader(defs.PathAddReaderReq{Author: author, Res: res})
	vnd.Assert(len(res) == 1, "exactly one response to an add-reader request")
	r := <-res
	vnd.Assert(pa.conf.MaxReaders == 0 || len(pa.readers) <= pa.conf.MaxReaders, "the reader count never exceeds a non-zero maxReaders")
	if existing {
		vnd.Assert(r.Err == nil && r.Stream == pa.stream && len(pa.readers) == n, "an already attached reader gets the stream and is not counted twice")
	} else if r.Err == nil {
		_, in := pa.readers[author]
		vnd.Assert(in && len(pa.readers) == n+1 && r.Stream == pa.stream, "an admitted reader is attached once")
	} else {
		_, in := pa.readers[author]
		vnd.Assert(!in && len(pa.readers) == n, "a refused reader is not attached")
		vnd.Assert(pa.conf.MaxReaders != 0 && n >= pa.conf.MaxReaders, "a reader is refused only when the limit is reached")
	}
	vnd.Cover(r.Err != nil, "limit reached")
	vnd.Cover(r.Err == nil && !existing, "reader admitted")
}

// VerifRemoveReader: removal detaches exactly the author.
func VerifRemoveReader() {
	n := vnd.Choose("readers", vnd.Bound("readers", 3)+1)
	pa, rs := verifPathWithReaders(n)
	var author defs.Reader = &verifReader{id: 99}
	existing := n > 0 && vnd.Bool("attached")
	if existing {
		author = rs[vnd.Choose("which", n)]
	}
	res := make(chan struct{})
	pa.doRemoveReader(defs.PathRemoveReaderReq{Author: author, Res: res})
	_, in := pa.readers[author]
	vnd.Assert(!in, "a removed reader is detached")
	want := n
	if existing {
		want = n - 1
	}
	vnd.Assert(len(pa.readers) == want, "only the author is detached")
	vnd.Cover(existing, "attached reader removed")
}

// VerifTeardownClosesReaders: when the stream becomes unavailable every reader is detached and closed once.
func VerifTeardownClosesReaders() {
	n := vnd.Choose("readers", vnd.Bound("readers", 3)+1)
	pa, rs := verifPathWithReaders(n)
	pa.stream = nil // Stream.Close belongs to package stream; the reader teardown does not depend on it
	hook := 0
	pa.onUnavailableHook = func() { hook++ }
	pa.setNotAvailable()
	vnd.Assert(len(pa.readers) == 0, "no reader stays attached to an unavailable path")
	for _, r := range rs {
		vnd.Assert(r.closed == 1, "every detached reader is closed exactly once")
	}
	vnd.Assert(hook == 1 && pa.parent.(*verifPathParent).notReady == 1, "the unavailable transition is signalled once")
	vnd.Cover(n == 3, "three readers torn down")
}
