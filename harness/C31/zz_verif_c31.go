package api //nolint:revive

import (
	"net/http"
	"net/http/httptest"
	"net/url"
	"os"
	"time"

	"github.com/gin-gonic/gin"

	"github.com/bluenviron/mediamtx/internal/conf"
	"github.com/bluenviron/mediamtx/internal/logger"
	"github.com/bluenviron/mediamtx/internal/recordstore"
	"github.com/bluenviron/mediamtx/internal/zzverif/vnd"
)

type verifParent struct {
	apiParent
	c *conf.Conf
}

func (p *verifParent) APIConfigSnapshot() *conf.Conf          { return p.c }
func (p *verifParent) Log(logger.Level, string, ...any)        {}

// VerifDeleteSegmentByInstant: the segment started at an instant is deleted whatever UTC
// offset the instant is written with in the request, on a server whose zone is not UTC.
func VerifDeleteSegmentByInstant() {
	zones := []int{0, 2 * 3600, -(5*3600 + 1800)}
	server := time.FixedZone("server", zones[vnd.Choose("serverzone", len(zones))])
	reqZone := time.FixedZone("req", zones[vnd.Choose("reqzone", len(zones))])
	time.Local = server

	dir, err := os.MkdirTemp("", "verif-c31")
	if err != nil {
		vnd.Assume(false)
	}
	defer os.RemoveAll(dir)
	recordPath := dir + "/%path/%Y-%m-%d_%H-%M-%S-%f"
	pconf := &conf.Path{Name: "cam", RecordPath: recordPath, RecordFormat: conf.RecordFormatFMP4}

	// the recorder names the segment after its start instant in the server's zone
	instant := time.Date(2024, 3, 10, 22, 30, 15, 250000000, time.UTC)
	segName := recordstore.Path{Start: instant.In(server), Path: "cam"}.Encode(recordstore.PathAddExtension(recordPath, conf.RecordFormatFMP4))
	if os.MkdirAll(dir+"/cam", 0o755) != nil || os.WriteFile(segName, []byte("x"), 0o644) != nil {
		vnd.Assume(false)
	}

	a := &API{Parent: &verifParent{c: &conf.Conf{Paths: map[string]*conf.Path{"cam": pconf}}}}
	ctx, _ := gin.CreateTestContext(httptest.NewRecorder())
	q := url.Values{}
	q.Set("path", "cam")
	q.Set("start", instant.In(reqZone).Format(time.RFC3339Nano))
	ctx.Request = &http.Request{Method: http.MethodDelete, URL: &url.URL{Path: "/v3/recordings/deletesegment", RawQuery: q.Encode()}}
	a.onRecordingDeleteSegment(ctx)

	_, statErr := os.Stat(segName)
	vnd.Assert(statErr != nil, "the segment starting at the given instant is removed, whatever offset the request uses")
	vnd.Cover(zones[0] == 0, "reached")
}

// VerifDeleteSegmentNamesOneInstant: a request whose start is not the start of any segment (a little
// after an existing one) deletes nothing and is refused.
func VerifDeleteSegmentNamesOneInstant() {
	time.Local = time.UTC
	dir, err := os.MkdirTemp("", "verif-c31b")
	if err != nil {
		vnd.Assume(false)
	}
	defer os.RemoveAll(dir)
	recordPath := dir + "/%path/%Y-%m-%d_%H-%M-%S-%f"
	pconf := &conf.Path{Name: "cam", RecordPath: recordPath, RecordFormat: conf.RecordFormatFMP4}
	instant := time.Date(2024, 3, 10, 22, 30, 15, 250000000, time.UTC)
	segName := recordstore.Path{Start: instant, Path: "cam"}.Encode(recordstore.PathAddExtension(recordPath, conf.RecordFormatFMP4))
	if os.MkdirAll(dir+"/cam", 0o755) != nil || os.WriteFile(segName, []byte("x"), 0o644) != nil {
		vnd.Assume(false)
	}
	later := []time.Duration{time.Microsecond, 30 * time.Second, time.Hour}[vnd.Choose("later", 3)]
	a := &API{Parent: &verifParent{c: &conf.Conf{Paths: map[string]*conf.Path{"cam": pconf}}}}
	w := httptest.NewRecorder()
	ctx, _ := gin.CreateTestContext(w)
	q := url.Values{}
	q.Set("path", "cam")
	q.Set("start", instant.Add(later).Format(time.RFC3339Nano))
	ctx.Request = &http.Request{Method: http.MethodDelete, URL: &url.URL{Path: "/v3/recordings/deletesegment", RawQuery: q.Encode()}}
	a.onRecordingDeleteSegment(ctx)
	_, statErr := os.Stat(segName)
	vnd.Assert(statErr == nil, "a request that names no segment's start deletes nothing")
	vnd.Assert(ctx.Writer.Status() >= 400, "a request that names no segment's start is refused")
	vnd.Cover(true, "reached")
}
