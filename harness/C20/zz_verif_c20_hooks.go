package hooks

import (
	"strings"
	"sync"

	"github.com/bluenviron/mediamtx/internal/conf"
	"github.com/bluenviron/mediamtx/internal/defs"
	"github.com/bluenviron/mediamtx/internal/externalcmd"
	"github.com/bluenviron/mediamtx/internal/logger"
	"github.com/bluenviron/mediamtx/internal/zzverif/vnd"
)

type verifC20Log struct {
	mu    sync.Mutex
	lines []string
}

func (l *verifC20Log) Log(_ logger.Level, format string, _ ...any) {
	l.mu.Lock()
	l.lines = append(l.lines, format)
	l.mu.Unlock()
}

func (l *verifC20Log) index(sub string) (first int, n int) {
	first = -1
	for i, s := range l.lines {
		if strings.Contains(s, sub) {
			if first < 0 {
				first = i
			}
			n++
		}
	}
	return
}

// VerifHookContract: each start/stop hook constructor, for every combination of configured commands: the
// start command is announced once iff configured; calling the returned function announces the stop of a
// started command and launches the closing command iff configured, in that order, exactly once.
func VerifHookContract() {
	vnd.GoMode("skip") // the processes themselves are C21's
	start, stop := "", ""
	if vnd.Bool("startConfigured") {
		start = "sleep 30"
	}
	if vnd.Bool("stopConfigured") {
		stop = "true"
	}
	restart := vnd.Bool("restart")
	query := vnd.String("query", vnd.Choose("queryLen", 2))
	log := &verifC20Log{}
	pool := &externalcmd.Pool{}
	var closeHook func()
	var startName, stopName string
	switch vnd.Choose("hook", 5) {
	case 0:
		startName, stopName = "runOnDemand", "runOnUnDemand"
		f := OnDemand(OnDemandParams{Logger: log, ExternalCmdPool: pool, ExternalCmdEnv: externalcmd.Environment{}, Query: query,
			Conf: &conf.Path{RunOnDemand: start, RunOnDemandRestart: restart, RunOnUnDemand: stop}})
		closeHook = func() { f("reason") }
	case 1:
		startName, stopName = "runOnAvailable", "runOnUnavailable"
		closeHook = OnAvailable(OnAvailableParams{Logger: log, ExternalCmdPool: pool, ExternalCmdEnv: externalcmd.Environment{}, Query: query,
			Desc: &defs.APIPathSource{Type: "rtspSession", ID: "id"},
			Conf: &conf.Path{RunOnAvailable: start, RunOnAvailableRestart: restart, RunOnUnavailable: stop}})
	case 2:
		startName, stopName = "runOnOnline", "runOnOffline"
		closeHook = OnOnline(OnOnlineParams{Logger: log, ExternalCmdPool: pool, ExternalCmdEnv: externalcmd.Environment{}, Query: query,
			Desc: &defs.APIPathSource{Type: "rtspSession", ID: "id"},
			Conf: &conf.Path{RunOnOnline: start, RunOnOnlineRestart: restart, RunOnOffline: stop}})
	case 3:
		startName, stopName = "runOnRead", "runOnUnread"
		closeHook = OnRead(OnReadParams{Logger: log, ExternalCmdPool: pool, ExternalCmdEnv: externalcmd.Environment{}, Query: query,
			Reader: defs.APIPathReader{Type: "rtspSession", ID: "id"},
			Conf:   &conf.Path{RunOnRead: start, RunOnReadRestart: restart, RunOnUnread: stop}})
	default:
		startName, stopName = "runOnConnect", "runOnDisconnect"
		closeHook = OnConnect(OnConnectParams{Logger: log, ExternalCmdPool: pool, RunOnConnect: start, RunOnConnectRestart: restart,
			RunOnDisconnect: stop, RTSPAddress: ":8554", Desc: defs.APIPathReader{Type: "rtspConn", ID: "id"}})
	}
	_, started := log.index(startName + " command started")
	_, stopped := log.index(startName + " command stopped")
	_, launched := log.index(stopName + " command launched")
	want := 0
	if start != "" {
		want = 1
	}
	vnd.Assert(started == want && stopped == 0 && launched == 0, "opening a pair starts the start command iff configured and nothing else")
	closeHook()
	iStop, stopped := log.index(startName + " command stopped")
	iLaunch, launched := log.index(stopName + " command launched")
	vnd.Assert(stopped == want, "closing a pair stops exactly the command that was started")
	wantLaunch := 0
	if stop != "" {
		wantLaunch = 1
	}
	vnd.Assert(launched == wantLaunch, "closing a pair launches the closing command iff configured")
	vnd.Assert(stopped == 0 || launched == 0 || iStop < iLaunch, "the start command is stopped before the closing command runs")
	_, startedAfter := log.index(startName + " command started")
	vnd.Assert(startedAfter == want, "closing a pair starts nothing")
	vnd.Cover(started == 1 && launched == 1, "both commands configured")
	vnd.Cover(started == 0 && launched == 0, "nothing configured")
}
