package core

import (
	"context"
	"strings"
	"sync"
	"time"

	"github.com/bluenviron/gortsplib/v5/pkg/description"

	"github.com/bluenviron/mediamtx/internal/conf"
	"github.com/bluenviron/mediamtx/internal/defs"
	"github.com/bluenviron/mediamtx/internal/externalcmd"
	"github.com/bluenviron/mediamtx/internal/forward"
	"github.com/bluenviron/mediamtx/internal/logger"
	"github.com/bluenviron/mediamtx/internal/zzverif/vnd"
)

// the path's parent: records the log, which is where hook executions are announced
type verifC20Parent struct {
	mu  sync.Mutex
	log []string
}

func (p *verifC20Parent) Log(_ logger.Level, format string, _ ...any) {
	p.mu.Lock()
	p.log = append(p.log, format)
	p.mu.Unlock()
}
func (p *verifC20Parent) setPathReady(*path)    {}
func (p *verifC20Parent) setPathNotReady(*path) {}
func (p *verifC20Parent) closePathIfIdle(*path) {}
func (p *verifC20Parent) removePath(*path)      {}
func (p *verifC20Parent) AddReader(defs.PathAddReaderReq) (*defs.PathAddReaderRes, error) {
	return nil, nil
}

// verifC20Pairs: the executions announced with the suffixes start and stop alternate strictly, start first.
// It returns the number of open pairs (0 or 1) and whether the sequence is well formed.
func (p *verifC20Parent) pairs(start, stop string) (int, bool) {
	open := 0
	for _, l := range p.log {
		switch {
		case strings.HasSuffix(l, start):
			if open != 0 {
				return open, false
			}
			open = 1
		case strings.HasSuffix(l, stop):
			if open != 1 {
				return open, false
			}
			open = 0
		}
	}
	return open, true
}

func (p *verifC20Parent) count(suffix string) int {
	n := 0
	for _, l := range p.log {
		if strings.HasSuffix(l, suffix) {
			n++
		}
	}
	return n
}

type verifC20Pub struct{ closed int }

func (p *verifC20Pub) Log(logger.Level, string, ...any)       {}
func (p *verifC20Pub) Close()                                 { p.closed++ }
func (p *verifC20Pub) APISourceDescribe() *defs.APIPathSource { return nil }

type verifC20Reader struct{ closed int }

func (r *verifC20Reader) Log(logger.Level, string, ...any)       {}
func (r *verifC20Reader) Close()                                 { r.closed++ }
func (r *verifC20Reader) APIReaderDescribe() *defs.APIPathReader { return nil }

type verifC20Held struct {
	describe chan defs.PathDescribeRes
	read     chan defs.PathAddReaderRes
	reader   *verifC20Reader
}

func (h verifC20Held) answers() int {
	if h.describe != nil {
		return len(h.describe)
	}
	return len(h.read)
}

// VerifPathHookPairs: any sequence of `steps` events on a path with an on-demand publisher
// (runOnDemand), followed by the path's teardown.
func VerifPathHookPairs() {
	vnd.GoMode("skip") // the hook commands themselves (externalcmd goroutines) are not part of the property
	parent := &verifC20Parent{}
	ctx, cancel := context.WithCancel(context.Background())
	pa := &path{
		conf: &conf.Path{
			Source: "publisher", MaxReaders: vnd.Int("maxReaders"), RunOnDemand: "sleep 30", RunOnUnDemand: "true",
			RunOnAvailable: "sleep 30", RunOnUnavailable: "true", RunOnOnline: "sleep 30", RunOnOffline: "true",
			RunOnDemandStartTimeout: conf.Duration(time.Hour), RunOnDemandCloseAfter: conf.Duration(time.Hour),
		},
		name: "p", parent: parent, ctx: ctx, ctxCancel: cancel, wg: &sync.WaitGroup{},
		readers: map[defs.Reader]struct{}{}, forwardManager: &forward.Manager{}, externalCmdPool: &externalcmd.Pool{},
		onDemandStaticSourceReadyTimer: emptyTimer(), onDemandStaticSourceCloseTimer: emptyTimer(),
		onDemandPublisherReadyTimer: emptyTimer(), onDemandPublisherCloseTimer: emptyTimer(),
		done: make(chan struct{}),
	}
	vnd.Assume(pa.conf.MaxReaders >= 0)
	var held []verifC20Held
	var attached []*verifC20Reader
	var pub *verifC20Pub
	steps := vnd.Bound("steps", 3)
	for i := 0; i < steps; i++ {
		hadStream := pa.stream != nil
		ev := vnd.Choose("event", 7)
		switch ev {
		case 0: // describe
			h := verifC20Held{describe: make(chan defs.PathDescribeRes, 2)}
			held = append(held, h)
			pa.doDescribe(defs.PathDescribeReq{Res: h.describe})
			if hadStream {
				vnd.Assert(len(h.describe) == 1, "a describe on an available path is answered at once")
			} else {
				vnd.Assert(len(h.describe) == 0 && pa.onDemandPublisherState != pathOnDemandStateInitial, "a describe without a stream is held and the on-demand command runs")
			}
		case 1: // add reader
			r := &verifC20Reader{}
			h := verifC20Held{read: make(chan defs.PathAddReaderRes, 2), reader: r}
			held = append(held, h)
			pa.doAddReader(defs.PathAddReaderReq{Author: r, Res: h.read})
			if hadStream {
				vnd.Assert(len(h.read) == 1, "a reader of an available path is answered at once")
				if _, in := pa.readers[r]; in {
					attached = append(attached, r)
				}
			} else {
				vnd.Assert(len(h.read) == 0 && pa.onDemandPublisherState != pathOnDemandStateInitial, "a reader without a stream is held and the on-demand command runs")
			}
		case 2: // a publisher arrives
			vnd.Assume(pa.source == nil)
			pub = &verifC20Pub{}
			res := make(chan defs.PathAddPublisherRes, 2)
			pa.doAddPublisher(defs.PathAddPublisherReq{Author: pub, Desc: &description.Session{}, Res: res})
			vnd.Assert(len(res) == 1, "exactly one response to the publisher")
			r := <-res
			vnd.Assert(r.Err == nil && pa.stream != nil, "the publisher is accepted")
			for _, h := range held {
				vnd.Assert(h.answers() == 1, "every held request is answered when the stream becomes ready")
			}
			for _, h := range held {
				if h.reader != nil {
					if _, in := pa.readers[h.reader]; in {
						known := false
						for _, a := range attached {
							known = known || a == h.reader
						}
						if !known {
							attached = append(attached, h.reader)
						}
					}
				}
			}
		case 3: // the publisher leaves
			vnd.Assume(pa.source != nil)
			res := make(chan struct{})
			pa.doRemovePublisher(defs.PathRemovePublisherReq{Author: pub, Res: res})
			vnd.Assert(pa.stream == nil && pa.source == nil, "the stream goes with its publisher")
			attached = nil
		case 4: // a reader leaves
			vnd.Assume(len(attached) > 0)
			r := attached[len(attached)-1]
			attached = attached[:len(attached)-1]
			res := make(chan struct{})
			pa.doRemoveReader(defs.PathRemoveReaderReq{Author: r, Res: res})
		case 5: // the start timeout expires
			vnd.Assume(pa.onDemandPublisherState == pathOnDemandStateWaitingReady)
			pa.doOnDemandPublisherReadyTimer()
			for _, h := range held {
				vnd.Assert(h.answers() == 1, "every held request is answered when the start timeout expires")
			}
			vnd.Assert(pa.onDemandPublisherState == pathOnDemandStateInitial, "the on-demand command is stopped when its start times out")
		case 6: // the close delay expires
			vnd.Assume(pa.onDemandPublisherState == pathOnDemandStateClosing)
			pa.doOnDemandPublisherCloseTimer()
			vnd.Assert(pa.onDemandPublisherState == pathOnDemandStateInitial, "the on-demand command is stopped after the close delay")
		}
		verifC20Invariants(pa, parent, held)
		// the close delay runs exactly while the demanded stream has no reader
		if pa.onDemandPublisherState == pathOnDemandStateReady || pa.onDemandPublisherState == pathOnDemandStateClosing {
			vnd.Assert((pa.onDemandPublisherState == pathOnDemandStateClosing) == (len(pa.readers) == 0), "the close delay runs iff no reader remains")
		}
	}
	// teardown: the real run() with its context already cancelled
	cancel()
	pa.wg.Add(1)
	pa.run()
	for _, h := range held {
		vnd.Assert(h.answers() == 1, "every request has exactly one response once the path is closed")
	}
	for _, pair := range [][2]string{
		{"runOnDemand command started", "runOnDemand command stopped: %v"},
		{"runOnAvailable command started", "runOnAvailable command stopped"},
		{"runOnOnline command started", "runOnOnline command stopped"},
	} {
		open, ok := parent.pairs(pair[0], pair[1])
		vnd.Assert(ok && open == 0, "every open hook pair is closed when the path closes")
	}
	vnd.Cover(len(held) > 0 && parent.count("runOnDemand command started") == 2, "on-demand command restarted on later demand")
	vnd.Cover(len(held) == 2, "two requests held")
}

func verifC20Invariants(pa *path, parent *verifC20Parent, held []verifC20Held) {
	for _, h := range held {
		vnd.Assert(h.answers() <= 1, "no request is answered twice")
	}
	nHeld := len(pa.describeRequestsOnHold) + len(pa.readerAddRequestsOnHold)
	unanswered := 0
	for _, h := range held {
		if h.answers() == 0 {
			unanswered++
		}
	}
	vnd.Assert(unanswered == nHeld, "the unanswered requests are exactly the ones the path holds")
	st := pa.onDemandPublisherState
	vnd.Assert(nHeld == 0 || st == pathOnDemandStateWaitingReady, "requests are held only while the on-demand publisher is awaited (start timeout running)")
	vnd.Assert(st != pathOnDemandStateWaitingReady || pa.stream == nil, "the publisher is awaited only while there is no stream")
	vnd.Assert((st != pathOnDemandStateReady && st != pathOnDemandStateClosing) || pa.stream != nil, "the on-demand command is in use or in its close delay only while its stream exists: when the publisher leaves, demand starts over")
	open, ok := parent.pairs("runOnDemand command started", "runOnDemand command stopped: %v")
	vnd.Assert(ok, "runOnDemand starts and stops alternate")
	vnd.Assert((open == 1) == (pa.onDemandPublisherState != pathOnDemandStateInitial), "the on-demand command runs exactly while demanded")
	vnd.Assert(parent.count("runOnUnDemand command launched") == parent.count("runOnDemand command stopped: %v"), "runOnUnDemand follows every stop of runOnDemand")
	open, ok = parent.pairs("runOnAvailable command started", "runOnAvailable command stopped")
	vnd.Assert(ok && (open == 1) == (pa.stream != nil), "runOnAvailable/runOnUnavailable bracket the stream's availability")
	open, ok = parent.pairs("runOnOnline command started", "runOnOnline command stopped")
	vnd.Assert(ok && (open == 1) == (pa.stream != nil), "runOnOnline/runOnOffline bracket the stream's availability (not always-available)")
}
