package core

import (
	"github.com/bluenviron/mediamtx/internal/zzverif/vnd"
)

// The components are zero values: calling Close on one dereferences a nil field and panics,
// or (for those whose Close tolerates a zero value) returns and the field is set to nil.
// Either way "closeResources decided to close X" is observable, natively as well.

func verifC13Run(comp int, mut int, newNil bool, distinct bool) (closed bool) {
	old, nw := verifC13Build(mut, distinct)
	p := &Core{}
	p.conf.Store(old)
	verifC13SetComponent(p, comp)
	if newNil {
		nw = nil
	}
	panicked := vnd.Panics(func() { p.closeResources(nw) })
	return panicked || verifC13ComponentNil(p, comp)
}

// VerifReloadClosesChanged: for every component X and every configuration parameter F that
// createResources uses to build X (directly, or through a component X holds a reference to),
// two configurations differing only in F make closeResources close X.
func VerifReloadClosesChanged() {
	k := vnd.Choose("pair", len(verifC13Pairs))
	pr := verifC13Pairs[k]
	closed := verifC13Run(pr.Comp, pr.Field, false, false)
	vnd.Assert(closed, "a component built from a changed parameter is closed for recreation: "+verifC13Components[pr.Comp]+" <- "+verifC13Fields[pr.Field])
	vnd.Cover(pr.Via != "", "parameter reaching the component through a referenced component")
	vnd.Cover(pr.Via == "", "parameter used directly")
}

// VerifReloadKeepsUnchanged: configurations with equal values (held in distinct memory, as after
// a reload of the same file or a cloned API edit) close nothing.
func VerifReloadKeepsUnchanged() {
	c := vnd.Choose("component", len(verifC13Components))
	closed := verifC13Run(c, -1, false, true)
	vnd.Assert(!closed, "a component none of whose parameters changed keeps running: "+verifC13Components[c])
	vnd.Cover(true, "equal configurations checked")
}

// VerifReloadFakeDetectsClose: sanity of the observation — shutting down (nil configuration)
// is seen as a close of every component.
func VerifReloadFakeDetectsClose() {
	c := vnd.Choose("component", len(verifC13Components))
	closed := verifC13Run(c, -1, true, true)
	vnd.Assert(closed, "the close of a component is observable")
	vnd.Cover(true, "shutdown checked")
}
