#!/bin/sh
# C13: regenerate the component/parameter table from the SSA of createResources, then decide the harness
mkdir -p /verif/.work/C13
${SYMGO:-/verif/bin/symgo} c13gen -out /verif/.work/C13/zz_verif_c13_gen.go -json /verif/.work/C13/uses.json || { echo "ENGINE-ERROR: c13gen failed"; exit 2; }
exec ${SYMGO:-/verif/bin/symgo} run -id C13 -tier "$1"
