package auth

import (
	"net"
	"regexp"

	"github.com/bluenviron/mediamtx/internal/conf"
	"github.com/bluenviron/mediamtx/internal/zzverif/vnd"
)

var verifActions = []conf.AuthAction{conf.AuthActionPublish, conf.AuthActionRead, conf.AuthActionPlayback, conf.AuthActionAPI, conf.AuthActionMetrics, conf.AuthActionPprof}

var verifPathPatterns = []string{"^a", "b$", "a.b"}

func verifShort(name string, min int) string {
	return vnd.String(name, min+vnd.Choose(name+"len", vnd.Bound("str_len", 2)+1-min))
}

type verifUser struct {
	u conf.AuthInternalUser
	// reference data
	pathKind []int // per permission: 0 empty, 1 literal, 2 regexp
}

func verifMakeUser() verifUser {
	var vu verifUser
	if vnd.Bool("any") {
		vu.u.User = "any"
	} else {
		name := verifShort("cfgUser", 1)
		vnd.Assume(name != "any")
		vu.u.User = conf.Credential(name)
		vu.u.Pass = conf.Credential(verifShort("cfgPass", 0))
	}
	if vnd.Bool("hasNet") {
		ip := vnd.Bytes("netIP", 4)
		ones := []int{0, 8, 24, 32}[vnd.Choose("maskLen", 4)]
		vu.u.IPs = conf.IPNetworks{conf.IPNetwork(net.IPNet{IP: net.IP(ip), Mask: net.CIDRMask(ones, 32)})}
	}
	np := 1 + vnd.Choose("nperms", vnd.Bound("perms", 1))
	for i := 0; i < np; i++ {
		p := conf.AuthInternalUserPermission{Action: verifActions[vnd.Choose("permAction", len(verifActions))]}
		kind := vnd.Choose("permPath", 3)
		switch kind {
		case 1:
			p.Path = verifShort("permLiteral", 1)
			vnd.Assume(p.Path[0] != '~')
		case 2:
			p.Path = "~" + verifPathPatterns[vnd.Choose("permRegexp", len(verifPathPatterns))]
		}
		vu.u.Permissions = append(vu.u.Permissions, p)
		vu.pathKind = append(vu.pathKind, kind)
	}
	return vu
}

// reference decision transcribed from the property statement
func verifAdmits(vu verifUser, req *Request) bool {
	u := vu.u
	if len(u.IPs) != 0 {
		in := false
		for _, n := range u.IPs {
			ipn := net.IPNet(n)
			ok := true
			ip4 := req.IP.To4()
			for i := 0; i < 4; i++ {
				if ip4[i]&ipn.Mask[i] != ipn.IP[i]&ipn.Mask[i] {
					ok = false
				}
			}
			in = in || ok
		}
		if !in {
			return false
		}
	}
	granted := false
	for i, p := range u.Permissions {
		if p.Action != req.Action {
			continue
		}
		if p.Action != conf.AuthActionPublish && p.Action != conf.AuthActionRead && p.Action != conf.AuthActionPlayback {
			granted = true
			continue
		}
		switch vu.pathKind[i] {
		case 0:
			granted = true
		case 1:
			granted = granted || p.Path == req.Path
		default:
			granted = granted || regexp.MustCompile(p.Path[1:]).MatchString(req.Path)
		}
	}
	if !granted {
		return false
	}
	if u.User == "any" {
		return true
	}
	return string(u.User) == req.Credentials.User && (u.Pass == "" || string(u.Pass) == req.Credentials.Pass)
}

// VerifInternalAuth: admitted iff some user entry admits; user name reported; credentials asked for only when none supplied.
func VerifInternalAuth() {
	nu := 1 + vnd.Choose("nusers", vnd.Bound("users", 2))
	var users []verifUser
	m := &Manager{Method: conf.AuthMethodInternal}
	for i := 0; i < nu; i++ {
		vu := verifMakeUser()
		users = append(users, vu)
		m.InternalUsers = append(m.InternalUsers, vu.u)
	}
	req := &Request{
		Action:               verifActions[vnd.Choose("action", len(verifActions))],
		Path:                 vnd.String("path", vnd.Choose("pathlen", vnd.Bound("path_len", 2)+1)),
		Credentials:          &Credentials{User: verifShort("user", 0), Pass: verifShort("pass", 0)},
		IP:                   net.IP(vnd.Bytes("ip", 4)),
		EnableAskCredentials: vnd.Bool("ask"),
	}
	user, err := m.Authenticate(req)
	want := false
	for _, vu := range users {
		want = want || verifAdmits(vu, req)
	}
	vnd.Assert((err == nil) == want, "a request is admitted iff some user entry covers its IP, grants the action on the path and is 'any' or matches the credentials")
	if err == nil {
		vnd.Assert(user == req.Credentials.User, "an admitted request reports the supplied user name")
	} else {
		vnd.Assert(err.AskCredentials == (req.EnableAskCredentials && req.Credentials.User == "" && req.Credentials.Pass == ""), "credentials are asked for only when none were supplied and asking is allowed")
	}
	vnd.Cover(err == nil && m.InternalUsers[0].User != "any", "admitted through named credentials")
	vnd.Cover(err != nil, "rejected")
}

var verifScanActions = []conf.AuthAction{conf.AuthActionRead, conf.AuthActionPlayback, conf.AuthActionAPI}

// VerifPermissionScan: the scan over a user's permission list — every permission is considered,
// whatever precedes it (one 'any' user without IP restriction, 2..scan_perms permissions).
func VerifPermissionScan() {
	var vu verifUser
	vu.u.User = "any"
	np := 2 + vnd.Choose("nperms", vnd.Bound("scan_perms", 3)-1)
	for i := 0; i < np; i++ {
		p := conf.AuthInternalUserPermission{Action: verifScanActions[vnd.Choose("permAction", len(verifScanActions))]}
		kind := vnd.Choose("permPath", 3)
		switch kind {
		case 1:
			p.Path = vnd.String("permLiteral", 1)
			vnd.Assume(p.Path[0] != '~')
		case 2:
			p.Path = "~" + verifPathPatterns[vnd.Choose("permRegexp", len(verifPathPatterns))]
		}
		vu.u.Permissions = append(vu.u.Permissions, p)
		vu.pathKind = append(vu.pathKind, kind)
	}
	m := &Manager{Method: conf.AuthMethodInternal, InternalUsers: []conf.AuthInternalUser{vu.u}}
	req := &Request{
		Action:      verifScanActions[vnd.Choose("action", len(verifScanActions))],
		Path:        vnd.String("path", vnd.Choose("pathlen", 3)),
		Credentials: &Credentials{},
		IP:          net.IP{192, 0, 2, 1},
	}
	_, err := m.Authenticate(req)
	vnd.Assert((err == nil) == verifAdmits(vu, req), "a request is admitted iff some permission of the list grants the action on the path, wherever it stands in the list")
	vnd.Cover(err == nil && len(vu.u.Permissions) > 1 && vu.u.Permissions[0].Action == req.Action && vu.pathKind[0] == 2, "admitted although the first permission is a regexp for the same action")
}
