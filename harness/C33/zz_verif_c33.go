package reorderer

import (
	"github.com/bluenviron/mediamtx/internal/logger"
	"github.com/bluenviron/mediamtx/internal/protocols/moq/subgroup"
	"github.com/bluenviron/mediamtx/internal/zzverif/vnd"
)

type verifLog struct{}

func (verifLog) Log(logger.Level, string, ...any) {}

func verifSG(id uint64, size int) *subgroup.SubGroup {
	sg := &subgroup.SubGroup{}
	sg.Header.GroupID = id
	if size > 0 {
		sg.Objects = []subgroup.Object{{Payload: make([]byte, size)}}
	}
	return sg
}

func verifInv(r *Reorderer, label string) {
	sum := 0
	for id, sg := range r.pending {
		vnd.Assert(id > r.curGroupID, label+": pending ids are ahead of the last delivered")
		vnd.Assert(id != r.curGroupID+1, label+": the next group is never held back")
		vnd.Assert(sg.Header.GroupID == id, label+": pending key matches subgroup")
		sum += subGroupPayloadSize(sg)
	}
	vnd.Assert(r.pendingBytes == sum, label+": byte accounting exact")
	vnd.Assert(len(r.pending) <= r.MaxReordered, label+": held subgroups within MaxReordered")
	vnd.Assert(r.pendingBytes <= r.MaxPendingBytes, label+": held bytes within MaxPendingBytes")
}

// VerifReordererStep: one Push from an arbitrary state satisfying the invariant.
func VerifReordererStep() {
	n := vnd.Choose("npending", vnd.Bound("pending", 3)+1)
	r := &Reorderer{MaxReordered: vnd.Int("maxReordered"), MaxPendingBytes: vnd.Int("maxBytes"), Parent: verifLog{}}
	vnd.Assume(r.MaxReordered >= 0 && r.MaxPendingBytes >= 0)
	r.Initialize()
	r.initialized = true
	r.curGroupID = vnd.Uint64("cur")
	ids := make([]uint64, n)
	sgs := make([]*subgroup.SubGroup, n)
	total := 0
	for i := 0; i < n; i++ {
		id := vnd.Uint64("id")
		vnd.Assume(id > r.curGroupID && id != r.curGroupID+1)
		for j := 0; j < i; j++ {
			vnd.Assume(id != ids[j])
		}
		ids[i] = id
		sz := vnd.Choose("size", 2)
		sgs[i] = verifSG(id, sz)
		r.pending[id] = sgs[i]
		total += sz
	}
	r.pendingBytes = total
	vnd.Assume(n <= r.MaxReordered && total <= r.MaxPendingBytes)

	pid := vnd.Uint64("pushID")
	sg := verifSG(pid, vnd.Choose("pushSize", 3))
	oldCur := r.curGroupID
	out, err := r.Push(sg)
	vnd.Assert(err == nil, "push never fails")

	prev := oldCur
	for _, o := range out {
		vnd.Assert(o.Header.GroupID > prev, "outputs strictly increasing and after the last delivered")
		prev = o.Header.GroupID
		was := o == sg
		for i := range sgs {
			if o == sgs[i] && (ids[i] != pid || o == sg) {
				was = true
			}
		}
		// a pending subgroup replaced by a duplicate id must not be delivered
		vnd.Assert(was, "every output was received and is the latest for its id")
		_, still := r.pending[o.Header.GroupID]
		vnd.Assert(!still, "delivered subgroups are not held any more")
	}
	if len(out) > 0 {
		vnd.Assert(r.curGroupID == prev, "last delivered id is the last output")
	} else {
		vnd.Assert(r.curGroupID == oldCur, "no output, no progress")
	}
	if pid == oldCur+1 && pid != 0 {
		found := false
		for _, o := range out {
			if o == sg {
				found = true
			}
		}
		vnd.Assert(found, "the directly following subgroup is delivered immediately")
	}
	verifInv(r, "after")
	vnd.Cover(len(out) >= 3, "flush of three")
	vnd.Cover(len(out) == 0 && len(r.pending) == n+1, "held back")
}

// VerifReordererHistory: k pushes from the initial state.
func VerifReordererHistory() {
	k := vnd.Bound("pushes", 4)
	r := &Reorderer{MaxReordered: vnd.Int("maxReordered"), MaxPendingBytes: vnd.Int("maxBytes"), Parent: verifLog{}}
	vnd.Assume(r.MaxReordered >= 0 && r.MaxPendingBytes >= 0)
	r.Initialize()
	var last uint64
	have := false
	delivered := 0
	for i := 0; i < k; i++ {
		sg := verifSG(vnd.Uint64("id"), vnd.Choose("size", 2))
		out, err := r.Push(sg)
		vnd.Assert(err == nil, "push never fails")
		for _, o := range out {
			if have {
				vnd.Assert(o.Header.GroupID > last, "delivery order strictly increasing over the history")
			}
			last = o.Header.GroupID
			have = true
			delivered++
		}
		verifInv(r, "history")
	}
	vnd.Assert(delivered+len(r.pending) <= k, "nothing delivered twice or invented")
	vnd.Cover(delivered == k, "all delivered")
	vnd.Cover(len(r.pending) >= 2, "two held")
}
