package stream

import (
	"bytes"

	"github.com/bluenviron/gortsplib/v5/pkg/format"

	"github.com/bluenviron/mediamtx/internal/unit"
	"github.com/bluenviron/mediamtx/internal/zzverif/vnd"
)

func verifNALUs(name string) [][]byte {
	k := vnd.Choose(name+"count", vnd.Bound("nalus", 3)+1)
	au := make([][]byte, k)
	for i := range au {
		au[i] = vnd.Bytes(name, 2) // header byte (decides the type) + one content byte
	}
	return au
}

func verifInitial(name string, hdr byte) []byte {
	if vnd.Bool(name + "known") {
		return []byte{hdr, 0xA0}
	}
	return nil
}

func verifEqualAU(a, b [][]byte) bool {
	if len(a) != len(b) {
		return false
	}
	for i := range a {
		if !bytes.Equal(a[i], b[i]) {
			return false
		}
	}
	return true
}

// the composition of sub_stream_format.go: update the format from the unit, then remux the unit
func verifProcess(f format.Format, p unit.Payload) unit.Payload {
	newFormatUpdater(f)(f, p, func(update func()) { update() })
	return newUnitRemuxer(f)(f, p)
}

// VerifRemuxH264: two consecutive access units.
func VerifRemuxH264() {
	f := &format.H264{PayloadTyp: 96, PacketizationMode: 1, SPS: verifInitial("sps", 0x67), PPS: verifInitial("pps", 0x68)}
	sps, pps := f.SPS, f.PPS
	for u := 0; u < vnd.Bound("units", 2); u++ {
		au := verifNALUs("nalu")
		var want [][]byte
		key := false
		for _, n := range au {
			switch n[0] & 0x1F {
			case 7:
				sps = n
			case 8:
				pps = n
			case 9:
			default:
				if n[0]&0x1F == 5 {
					key = true
				}
				want = append(want, n)
			}
		}
		if key && sps != nil && pps != nil {
			want = append([][]byte{sps, pps}, want...)
		}
		got, _ := verifProcess(f, unit.PayloadH264(au)).(unit.PayloadH264)
		vnd.Assert(verifEqualAU([][]byte(got), want), "h264: unit = NALUs without parameter sets and delimiters, preceded at key frames by the most recent parameter sets")
		vnd.Assert(bytes.Equal(f.SPS, sps) && bytes.Equal(f.PPS, pps), "h264: the description reports the most recent parameter sets")
		vnd.Cover(key && len(got) >= 3, "h264 key frame with injected parameters")
	}
}

// VerifRemuxH265: two consecutive access units.
func VerifRemuxH265() {
	f := &format.H265{PayloadTyp: 96, VPS: verifInitial("vps", 0x40), SPS: verifInitial("sps", 0x42), PPS: verifInitial("pps", 0x44)}
	vps, sps, pps := f.VPS, f.SPS, f.PPS
	for u := 0; u < vnd.Bound("units", 2); u++ {
		au := verifNALUs("nalu")
		var want [][]byte
		key := false
		for _, n := range au {
			switch (n[0] >> 1) & 0x3F {
			case 32:
				vps = n
			case 33:
				sps = n
			case 34:
				pps = n
			case 35:
			default:
				t := (n[0] >> 1) & 0x3F
				if t == 19 || t == 20 || t == 21 {
					key = true
				}
				want = append(want, n)
			}
		}
		if key && vps != nil && sps != nil && pps != nil {
			want = append([][]byte{vps, sps, pps}, want...)
		}
		got, _ := verifProcess(f, unit.PayloadH265(au)).(unit.PayloadH265)
		vnd.Assert(verifEqualAU([][]byte(got), want), "h265: unit = NALUs without parameter sets and delimiters, preceded at key frames by the most recent parameter sets")
		vnd.Assert(bytes.Equal(f.VPS, vps) && bytes.Equal(f.SPS, sps) && bytes.Equal(f.PPS, pps), "h265: the description reports the most recent parameter sets")
		vnd.Cover(key && len(got) >= 4, "h265 key frame with injected parameters")
	}
}

// VerifRemuxAV1: temporal delimiters are removed, nothing else.
func VerifRemuxAV1() {
	f := &format.AV1{PayloadTyp: 96}
	tu := verifNALUs("obu")
	var want [][]byte
	for _, o := range tu {
		if (o[0]>>3)&0xF != 2 {
			want = append(want, o)
		}
	}
	got, _ := verifProcess(f, unit.PayloadAV1(tu)).(unit.PayloadAV1)
	vnd.Assert(verifEqualAU([][]byte(got), want), "av1: temporal unit without temporal delimiters, otherwise unchanged")
	vnd.Cover(len(got) < len(tu), "delimiter removed")
}
