package core

import (
	"context"
	"errors"
	"net"
	"regexp"

	"github.com/bluenviron/mediamtx/internal/auth"
	"github.com/bluenviron/mediamtx/internal/conf"
	"github.com/bluenviron/mediamtx/internal/defs"
	"github.com/bluenviron/mediamtx/internal/externalcmd"
	"github.com/bluenviron/mediamtx/internal/logger"
	"github.com/bluenviron/mediamtx/internal/zzverif/vnd"
)

type verifC03Auth struct {
	calls  []*auth.Request
	refuse bool
}

func (a *verifC03Auth) Authenticate(req *auth.Request) (string, *auth.Error) {
	a.calls = append(a.calls, req)
	if a.refuse {
		return "", &auth.Error{Wrapped: errors.New("denied")}
	}
	return req.Credentials.User, nil
}

type verifC03Log struct{}

func (verifC03Log) Log(logger.Level, string, ...any) {}

// VerifAttachNeedsAuthorization: the four entry points through which protocol servers reach a path
// (find configuration, describe, add reader, add publisher), with an arbitrary outcome of the
// authentication manager: a path is handed out only after the manager admitted the client's credentials
// and IP for exactly that path name and the matching action; a publisher only against the configuration
// in force.
func VerifAttachNeedsAuthorization() {
	am := &verifC03Auth{refuse: vnd.Bool("refuse")}
	pmCtx, pmCancel := context.WithCancel(context.Background())
	pmCancel() // a path created by the request ends its event loop at once
	confs := map[string]*conf.Path{
		"cam":          {Name: "cam", Source: "publisher"},
		"~^live/(.+)$": {Name: "~^live/(.+)$", Regexp: regexp.MustCompile("^live/(.+)$"), Source: "publisher"},
	}
	pm := &pathManager{ctx: pmCtx, parent: verifC03Log{}, authManager: am, pathConfs: confs,
		paths: map[string]*path{}, externalCmdPool: &externalcmd.Pool{}}

	name := []string{"cam", "live/a", "nowhere"}[vnd.Choose("name", 3)]
	// the path may be live already (created by an earlier request)
	var existing *path
	if name != "nowhere" && vnd.Bool("pathIsLive") {
		existing = &path{name: name}
		pm.paths[name] = existing
	}
	publish := vnd.Bool("publish")
	skip := vnd.Bool("skipAuth")
	creds := &auth.Credentials{User: vnd.String("user", vnd.Choose("userLen", 2)), Pass: vnd.String("pass", vnd.Choose("passLen", 2))}
	ip := net.IP(vnd.Bytes("ip", 4))
	ar := defs.PathAccessRequest{Name: name, Query: "q=1", Publish: publish, SkipAuth: skip, Proto: auth.ProtocolRTSP,
		Credentials: creds, IP: ip, EnableAskCredentials: vnd.Bool("ask")}

	var gotPath defs.Path
	var gotErr error
	entry := vnd.Choose("entry", 4)
	staleConf := false
	switch entry {
	case 0:
		vnd.Assume(!publish && !skip)
		res := make(chan defs.PathFindPathConfRes, 2)
		pm.doFindPathConf(defs.PathFindPathConfReq{AccessRequest: ar, Res: res})
		vnd.Assert(len(res) == 1, "exactly one response")
		r := <-res
		gotErr = r.Err
		if r.Err == nil {
			vnd.Assert(r.Conf != nil && r.User == creds.User, "the configuration is disclosed with the authenticated user")
		} else {
			vnd.Assert(r.Conf == nil, "no configuration is disclosed with an error")
		}
	case 1:
		vnd.Assume(!publish)
		res := make(chan defs.PathDescribeRes, 2)
		pm.doDescribe(defs.PathDescribeReq{AccessRequest: ar, Res: res})
		vnd.Assert(len(res) == 1, "exactly one response")
		r := <-res
		gotPath, gotErr = r.Path, r.Err
	case 2:
		vnd.Assume(!publish)
		res := make(chan defs.PathAddReaderRes, 2)
		pm.doAddReader(defs.PathAddReaderReq{AccessRequest: ar, Res: res})
		vnd.Assert(len(res) == 1, "exactly one response")
		r := <-res
		gotPath, gotErr = r.Path, r.Err
	default:
		vnd.Assume(publish)
		req := defs.PathAddPublisherReq{AccessRequest: ar, Res: make(chan defs.PathAddPublisherRes, 2)}
		switch vnd.Choose("confToCompare", 3) {
		case 1: // the configuration the client was authorized against is still in force
			if c, _, err := conf.FindPathConf(confs, name); err == nil {
				req.ConfToCompare = c.Clone()
			}
		case 2: // it changed in between
			if c, _, err := conf.FindPathConf(confs, name); err == nil {
				req.ConfToCompare = c.Clone()
				req.ConfToCompare.MaxReaders = 7
				staleConf = true
			}
		}
		pm.doAddPublisher(req)
		vnd.Assert(len(req.Res) == 1, "exactly one response")
		r := <-req.Res
		gotPath, gotErr = r.Path, r.Err
	}

	if entry == 0 {
		vnd.Assert(len(am.calls) <= 1, "at most one authentication")
	}
	handedOut := gotPath != nil && gotErr == nil
	if handedOut || (entry == 0 && gotErr == nil) {
		vnd.Assert(name != "nowhere", "nothing is handed out for a name without configuration")
		vnd.Assert(!staleConf, "a publisher is attached only against the configuration in force")
		if !skip {
			vnd.Assert(len(am.calls) == 1 && !am.refuse, "a path is handed out only after the authentication manager admitted the client")
			q := am.calls[0]
			wantAction := conf.AuthActionRead
			if publish {
				wantAction = conf.AuthActionPublish
			}
			vnd.Assert(q.Action == wantAction && q.Path == name, "authorization is asked for exactly this path name and the matching action")
			vnd.Assert(q.Credentials == creds && q.IP.Equal(ip) && q.Query == "q=1" && q.Protocol == auth.ProtocolRTSP, "the client's own credentials, IP, query and protocol are the ones authenticated")
		}
	} else {
		vnd.Assert(gotErr != nil, "a request that is not served gets an error")
		p, created := pm.paths[name]
		vnd.Assert(!created || p == existing, "a refused request creates no path")
	}
	if handedOut {
		p, ok := pm.paths[name]
		vnd.Assert(ok && defs.Path(p) == gotPath && (existing == nil || p == existing), "the path handed out is the one registered under the requested name")
	}
	vnd.Cover(handedOut && entry == 3, "publisher attached")
	vnd.Cover(!handedOut && am.refuse && !skip && name != "nowhere", "refused by the authentication manager")
	vnd.Cover(staleConf && gotErr != nil, "publisher refused: configuration changed since authorization")
}
