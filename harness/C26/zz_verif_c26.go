package recordstore

import (
	"time"

	"github.com/bluenviron/mediamtx/internal/zzverif/vnd"
)

var verifFormats = []string{
	"/rec/%path/%Y-%m-%d_%H-%M-%S-%f.mp4",
	"/rec/%path/%Y-%m-%d_%H-%M-%S-%f_%z.mp4",
	"/rec/%path/seg(%s).%f.ts",
	"/data/rec+1/%Y/%m/%d/%path_%H%M%S_%f.mp4",
}

func verifInstants() []time.Time {
	plus := time.FixedZone("plus", 2*3600+30*60)
	minus := time.FixedZone("minus", -(5 * 3600))
	return []time.Time{
		time.Date(2024, 2, 29, 23, 59, 58, 999999000, time.UTC),
		time.Date(2009, 11, 10, 1, 2, 3, 4000, plus),
		time.Date(2001, 9, 8, 20, 46, 40, 0, minus), // Unix second 1000000000: the first with ten digits
	}
}

func verifName() string {
	n := 1 + vnd.Choose("namelen", vnd.Bound("name_len", 2))
	b := make([]byte, n)
	for i := range b {
		c := vnd.Byte("c")
		vnd.Assume((c >= '0' && c <= '9') || (c >= 'a' && c <= 'z') || (c >= 'A' && c <= 'Z') || c == '_' || c == '-' || c == '.')
		b[i] = c
	}
	return string(b)
}

// VerifSegmentNameRoundTrip: Decode(Encode(path, instant)) = (path, instant).
func VerifSegmentNameRoundTrip() {
	time.Local = time.UTC // the server's zone; formats without %z are read back in it
	fi := vnd.Choose("format", len(verifFormats))
	f := verifFormats[fi]
	ti := vnd.Choose("instant", 3)
	start := verifInstants()[ti]
	if fi != 1 {
		start = start.In(time.UTC) // without %z the name is written and read in the server's zone
	}
	name := verifName()
	enc := Path{Start: start, Path: name}.Encode(f)
	var d Path
	ok := d.Decode(f, enc)
	vnd.Assert(ok, "a produced segment name is recognised")
	vnd.Assert(d.Path == name, "the path name is recovered")
	vnd.Assert(d.Start.Equal(start), "the start instant is recovered to the microsecond")
	vnd.Cover(fi == 1 && ti == 1, "zone-carrying format with a positive offset")
	vnd.Cover(fi == 2, "unix-seconds format")
}

// VerifSegmentWholeName: a name with extra bytes before or after a produced name is not a segment.
func VerifSegmentWholeName() {
	time.Local = time.UTC
	fi := vnd.Choose("format", len(verifFormats))
	f := verifFormats[fi]
	enc := Path{Start: verifInstants()[0], Path: "cam1"}.Encode(f)
	extra := vnd.String("extra", 1+vnd.Choose("extralen", vnd.Bound("extra_len", 2)))
	var cand string
	if vnd.Bool("suffix") {
		cand = enc + extra
	} else {
		cand = extra + enc
	}
	var d Path
	ok := d.Decode(f, cand)
	vnd.Assert(!ok, "a name with extra leading or trailing bytes is not recognised as a segment")
	vnd.Cover(true, "candidate checked")
}

// VerifZoneSuffixRoundTrip: the %z suffix over a menu of UTC offsets including sub-hour negative
// and non-integral-hour ones.
func VerifZoneSuffixRoundTrip() {
	time.Local = time.UTC
	offs := []int{0, 30 * 60, -(30 * 60), 45 * 60, -(9*3600 + 30*60), 5*3600 + 45*60, -(12 * 3600), 14 * 3600, -60, 59 * 60}
	off := offs[vnd.Choose("offset", len(offs))]
	vnd.Assume(off%60 == 0) // offsets are whole minutes in the name format
	f := verifFormats[1]
	start := time.Date(2024, 6, 15, 12, 0, 30, 123456000, time.FixedZone("z", off))
	enc := Path{Start: start, Path: "cam"}.Encode(f)
	var d Path
	ok := d.Decode(f, enc)
	vnd.Assert(ok, "zone: a produced segment name is recognised")
	vnd.Assert(d.Start.Equal(start), "zone: the start instant is recovered whatever the UTC offset")
	_, gotOff := d.Start.Zone()
	vnd.Assert(gotOff == off, "zone: the offset itself is recovered")
	vnd.Cover(off < 0 && off > -3600, "negative sub-hour offset")
}

// VerifSegmentNameLiterals: a produced name in which one literal character (a dot of the extension or of
// the path name, a separator of the format) is replaced by any other byte is not a segment of that path.
func VerifSegmentNameLiterals() {
	time.Local = time.UTC
	fi := vnd.Choose("format", len(verifFormats))
	f := verifFormats[fi]
	pathName := []string{"cam1", "cam.1"}[vnd.Choose("pathName", 2)]
	enc := []byte(Path{Start: verifInstants()[0], Path: pathName}.Encode(f))
	// positions of the literal characters that are special in regular expressions: . + ( )
	var pos []int
	for i, c := range enc {
		if c == '.' || c == '+' || c == '(' || c == ')' {
			pos = append(pos, i)
		}
	}
	vnd.Assume(len(pos) > 0)
	k := pos[vnd.Choose("position", len(pos))]
	c := vnd.Byte("replacement")
	vnd.Assume(c != enc[k] && c != '/' && c != 0)
	enc[k] = c
	var d Path
	ok := d.Decode(f, string(enc))
	vnd.Assert(!ok || d.Path != pathName, "a name that differs from a produced one in a literal character is not a segment of that path")
	vnd.Cover(true, "candidate checked")
}
