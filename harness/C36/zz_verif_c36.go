package metrics //nolint:revive

import (
	"strconv"
	"strings"

	"github.com/bluenviron/mediamtx/internal/zzverif/vnd"
)

// verifParseSample is a reference reader of one Prometheus text-format sample line:
//   name{label="value",...} number\n
// with label-value escapes \\ \" \n. It returns the label values in order.
func verifParseSample(line string) (name string, labels []string, values []string, num string, ok bool) {
	i := 0
	for i < len(line) && line[i] != '{' {
		i++
	}
	if i == len(line) {
		return
	}
	name = line[:i]
	i++ // '{'
	for {
		if i < len(line) && line[i] == '}' {
			i++
			break
		}
		// label name
		j := i
		for j < len(line) && line[j] != '=' {
			j++
		}
		if j+1 >= len(line) || line[j+1] != '"' {
			return
		}
		labels = append(labels, line[i:j])
		i = j + 2
		var val []byte
		closed := false
		for i < len(line) {
			c := line[i]
			if c == '\\' {
				if i+1 >= len(line) {
					return
				}
				switch line[i+1] {
				case '\\':
					val = append(val, '\\')
				case '"':
					val = append(val, '"')
				case 'n':
					val = append(val, '\n')
				default:
					return
				}
				i += 2
				continue
			}
			if c == '"' {
				closed = true
				i++
				break
			}
			if c == '\n' {
				return
			}
			val = append(val, c)
			i++
		}
		if !closed {
			return
		}
		values = append(values, string(val))
		if i < len(line) && line[i] == ',' {
			i++
			continue
		}
		if i < len(line) && line[i] == '}' {
			i++
			break
		}
		return
	}
	if i >= len(line) || line[i] != ' ' {
		return
	}
	i++
	j := i
	for j < len(line) && line[j] != '\n' {
		j++
	}
	if j != len(line)-1 {
		return // exactly one line
	}
	num = line[i:j]
	ok = true
	return
}

// VerifMetricLine: a sample line built from arbitrary label values reads back to the same values and number.
func VerifMetricLine() {
	n := vnd.Bound("value_len", 2)
	v1 := vnd.String("name", vnd.Choose("l1", n+1))
	v2 := "ready"
	count := []int64{-7, 0, 1234567}[vnd.Choose("count", 3)]
	var out strings.Builder
	metric(&out, "paths", tags(map[string]string{"name": v1, "state": v2}), count)
	line := out.String()
	name, labels, values, num, ok := verifParseSample(line)
	vnd.Assert(ok, "the sample line is valid exposition text")
	vnd.Assert(name == "paths", "metric name preserved")
	vnd.Assert(len(labels) == 2 && labels[0] == "name" && labels[1] == "state", "labels in sorted order")
	vnd.Assert(len(values) == 2 && values[0] == v1 && values[1] == v2, "label values equal the entity's values")
	got, err := strconv.ParseInt(num, 10, 64)
	vnd.Assert(err == nil && got == count, "sample value equals the counter")
	vnd.Cover(len(v1) == n && count < 0, "full-length value and negative counter")
}

// VerifCounterBoundaries: counters at the edges of the integer range and just beyond the integers a
// float64 holds exactly: the sample value is the counter, digit for digit.
func VerifCounterBoundaries() {
	vals := []int64{0, -1, 1<<53 + 1, 1<<53 - 1, 1<<63 - 1, -1 << 63, 999999999999999999}
	want := []string{"0", "-1", "9007199254740993", "9007199254740991", "9223372036854775807", "-9223372036854775808", "999999999999999999"}
	i := vnd.Choose("counter", len(vals))
	var out strings.Builder
	metric(&out, "bytes_received", "", vals[i])
	vnd.Assert(out.String() == "bytes_received "+want[i]+"\n", "the sample value is the counter, digit for digit")
	vnd.Cover(i == 2, "first integer a float64 cannot hold")
}
