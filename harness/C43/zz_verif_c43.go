package hls

import (
	"context"
	"sync/atomic"
	"errors"
	"net/http"
	"net/http/httptest"
	"net/url"

	"github.com/gin-gonic/gin"
	"github.com/google/uuid"

	"github.com/bluenviron/gortsplib/v5/pkg/description"

	"github.com/bluenviron/mediamtx/internal/auth"
	"github.com/bluenviron/mediamtx/internal/conf"
	"github.com/bluenviron/mediamtx/internal/defs"
	"github.com/bluenviron/mediamtx/internal/externalcmd"
	"github.com/bluenviron/mediamtx/internal/logger"
	"github.com/bluenviron/mediamtx/internal/stream"
	"github.com/bluenviron/mediamtx/internal/zzverif/vnd"
)

// the path manager admits readers while allow is set
type verifC43PM struct {
	added int
	allow bool
}

type verifC43Path struct{ name string }

func (p *verifC43Path) Name() string                                  { return p.name }
func (p *verifC43Path) SafeConf() *conf.Path                          { return &conf.Path{} }
func (p *verifC43Path) ExternalCmdEnv() externalcmd.Environment       { return externalcmd.Environment{} }
func (p *verifC43Path) RemovePublisher(defs.PathRemovePublisherReq)   {}
func (p *verifC43Path) RemoveReader(defs.PathRemoveReaderReq)         {}

func (pm *verifC43PM) SetHLSServer(*Server) []defs.Path { return nil }
func (pm *verifC43PM) FindPathConf(defs.PathFindPathConfReq) (*defs.PathFindPathConfRes, error) {
	return nil, &auth.Error{Wrapped: errors.New("denied")}
}
func (pm *verifC43PM) AddReader(req defs.PathAddReaderReq) (*defs.PathAddReaderRes, error) {
	pm.added++
	if !pm.allow {
		return nil, &auth.Error{Wrapped: errors.New("denied")}
	}
	st := &stream.Stream{OrigDesc: &description.Session{}, WriteQueueSize: 8, Parent: verifC43Parent{}}
	if err := st.Initialize(); err != nil {
		return nil, err
	}
	return &defs.PathAddReaderRes{Path: &verifC43Path{req.AccessRequest.Name}, Stream: st}, nil
}

type verifC43Parent struct{}

func (verifC43Parent) Log(logger.Level, string, ...any) {}

const (
	verifC43IP       = "192.0.2.70"
	verifC43PrefixIP = "192.0.2.7" // its text is a prefix of the creator's address
	verifC43OtherIP  = "198.51.100.9"
)

func verifC43Get(path, rawQuery, remoteIP string) (*gin.Context, *http.Request) {
	req := &http.Request{Method: http.MethodGet, URL: &url.URL{Path: path, RawQuery: rawQuery}, Header: http.Header{}, RemoteAddr: remoteIP + ":5000"}
	ctx, _ := gin.CreateTestContext(httptest.NewRecorder())
	ctx.Request = req
	return ctx, req
}

// verifC43CreateSession asks for the multivariant playlist of a path as an authorised client: the real
// session.initialize runs; serving the playlist then faults in the absent gohlslib muxer.
func verifC43CreateSession(s *Server, mx *muxer, ip string) uuid.UUID {
	ctx, _ := verifC43Get("/"+mx.pathName+"/index.m3u8", "cookieCheck=1", ip)
	vnd.Panics(func() { s.httpServer.onRequest(ctx) })
	vnd.Assume(len(mx.sessionsBySecret) == 1)
	for secret := range mx.sessionsBySecret {
		return secret
	}
	return uuid.UUID{}
}

// VerifMediaNeedsSession: media playlists and segments. Two muxers ('cam' and 'other'), each with one
// session created through the real session set-up by an authorised client at 192.0.2.70; an optional CDN
// session on 'cam', an optional CDN secret. A request passes the gate (and then faults in the absent
// gohlslib muxer) only with the secret of a session of that muxer from that session's IP, or with the CDN
// secret when the muxer has a CDN session; otherwise it is answered 401.
func VerifMediaNeedsSession() {
	vnd.GoMode("threads") // the server's own event loop answers getMuxer
	cdnSecret := ""
	if vnd.Bool("cdnConfigured") {
		cdnSecret = "cdn-secret"
	}
	pm := &verifC43PM{allow: true}
	sctx, cancel := context.WithCancel(context.Background())
	s := &Server{PathManager: pm, Parent: verifC43Parent{}, CDNSecret: cdnSecret, ctx: sctx, ctxCancel: cancel,
		ExternalCmdPool: &externalcmd.Pool{}, muxers: map[string]*muxer{}, chGetMuxer: make(chan serverGetMuxerReq)}
	s.httpServer = &httpServer{cdnSecret: cdnSecret, pathManager: pm, parent: s}
	newMuxer := func(name string) *muxer {
		return &muxer{pathName: name, parent: s, sessionsBySecret: map[uuid.UUID]*session{},
			instance: &muxerInstance{reader: &stream.Reader{}, bytesSent: &atomic.Uint64{}}}
	}
	cam, other := newMuxer("cam"), newMuxer("other")
	s.muxers["cam"], s.muxers["other"] = cam, other
	s.wg.Add(1)
	go s.run()
	secretA := verifC43CreateSession(s, cam, verifC43IP)
	secretB := verifC43CreateSession(s, other, verifC43IP)
	pm.allow = false
	created := pm.added
	hasCDNSession := vnd.Bool("cdnSession")
	if hasCDNSession {
		cam.cdnSession = &session{isCDN: true, pathName: "cam", server: s}
	}

	dir := []string{"cam", "other", "none"}[vnd.Choose("dir", 3)]
	file := []string{"stream.m3u8", "seg1.mp4", "part1.mp"}[vnd.Choose("file", 3)]
	remote := []string{verifC43IP, verifC43PrefixIP, verifC43OtherIP}[vnd.Choose("remoteIP", 3)]
	ctx, req := verifC43Get("/"+dir+"/"+file, "", remote)
	// the secret presented (if any)
	var presented uuid.UUID
	hasSecret := true
	switch vnd.Choose("secret", 4) {
	case 0:
		hasSecret = false
	case 1: // any 128-bit value in the query
		copy(presented[:], vnd.Bytes("secretBytes", 16))
		req.URL.RawQuery = sessionQueryParamName + "=" + presented.String()
	case 2: // session A's or B's secret in the cookie
		presented = secretA
		if vnd.Bool("cookieB") {
			presented = secretB
		}
		req.Header.Set("Cookie", sessionCookieName+"="+presented.String())
	default: // both: the cookie wins
		presented = secretB
		req.Header.Set("Cookie", sessionCookieName+"="+secretB.String())
		req.URL.RawQuery = sessionQueryParamName + "=" + secretA.String()
	}
	// the Authorization header
	cdnPresented := false
	switch vnd.Choose("authorization", 3) {
	case 1:
		req.Header.Set("Authorization", "Bearer cdn-secret")
		cdnPresented = cdnSecret != ""
	case 2:
		guess := vnd.String("bearer", len("cdn-secret"))
		req.Header.Set("Authorization", "Bearer "+guess)
		cdnPresented = cdnSecret != "" && guess == "cdn-secret"
	}

	reached := vnd.Panics(func() { s.httpServer.onRequest(ctx) }) // past the gate: the absent gohlslib muxer faults
	status := ctx.Writer.Status()
	var mx *muxer
	var own uuid.UUID
	switch dir {
	case "cam":
		mx, own = cam, secretA
	case "other":
		mx, own = other, secretB
	}
	authorized := false
	if mx != nil {
		if cdnPresented {
			authorized = mx.cdnSession != nil
		} else if hasSecret {
			authorized = presented == own && remote == verifC43IP
		}
	}
	vnd.Assert(!reached || authorized, "media is served only with the secret of a session of that path from its IP, or with the CDN secret")
	vnd.Assert(reached || status == http.StatusUnauthorized, "every other media request is answered 401")
	vnd.Assert(!authorized || reached, "a session's own requests are served")
	vnd.Assert(pm.added == created && len(cam.sessionsBySecret) == 1 && len(other.sessionsBySecret) == 1, "media requests create no session")
	vnd.Cover(reached && !cdnPresented, "served through a session secret")
	vnd.Cover(reached && cdnPresented, "served through the CDN secret")
	vnd.Cover(!reached && hasSecret && mx != nil, "secret presented, refused")
}

// VerifRefusedClientGetsNoSession: the multivariant playlist (where sessions are created) asked by a client
// the path manager refuses: no session is registered and the answer is 401.
func VerifRefusedClientGetsNoSession() {
	vnd.GoMode("threads")
	pm := &verifC43PM{}
	sctx, cancel := context.WithCancel(context.Background())
	s := &Server{PathManager: pm, Parent: verifC43Parent{}, ctx: sctx, ctxCancel: cancel,
		muxers: map[string]*muxer{}, chGetMuxer: make(chan serverGetMuxerReq)}
	s.httpServer = &httpServer{pathManager: pm, parent: s}
	cam := &muxer{pathName: "cam", parent: s, sessionsBySecret: map[uuid.UUID]*session{}}
	s.muxers["cam"] = cam
	req := &http.Request{Method: http.MethodGet, URL: &url.URL{Path: "/cam/index.m3u8", RawQuery: "cookieCheck=1"}, Header: http.Header{}, RemoteAddr: verifC43IP + ":5000"}
	if vnd.Bool("withCredentials") {
		req.Header.Set("Authorization", "Basic dTpw")
	}
	ctx, _ := gin.CreateTestContext(httptest.NewRecorder())
	ctx.Request = req
	s.wg.Add(1)
	go s.run()
	s.httpServer.onRequest(ctx)
	vnd.Assert(pm.added == 1, "the client is checked by the path manager")
	vnd.Assert(ctx.Writer.Status() == http.StatusUnauthorized && len(cam.sessionsBySecret) == 0 && cam.cdnSession == nil, "a refused client gets 401 and no session")
	vnd.Cover(true, "refused")
}
