package hls

import (
	"context"
	"errors"
	"net/http"
	"net/http/httptest"
	"net/url"

	"github.com/gin-gonic/gin"
	"github.com/google/uuid"

	"github.com/bluenviron/mediamtx/internal/auth"
	"github.com/bluenviron/mediamtx/internal/defs"
	"github.com/bluenviron/mediamtx/internal/logger"
	"github.com/bluenviron/mediamtx/internal/zzverif/vnd"
)

// the path manager refuses every reader: this harness is about requests that do not create sessions
type verifC43PM struct{ added int }

func (pm *verifC43PM) SetHLSServer(*Server) []defs.Path { return nil }
func (pm *verifC43PM) FindPathConf(defs.PathFindPathConfReq) (*defs.PathFindPathConfRes, error) {
	return nil, &auth.Error{Wrapped: errors.New("denied")}
}
func (pm *verifC43PM) AddReader(defs.PathAddReaderReq) (*defs.PathAddReaderRes, error) {
	pm.added++
	return nil, &auth.Error{Wrapped: errors.New("denied")}
}

type verifC43Parent struct{}

func (verifC43Parent) Log(logger.Level, string, ...any) {}

var (
	verifC43SecretA = uuid.UUID{0xa1, 0xa2, 0xa3, 0xa4, 0xa5, 0xa6, 0x47, 0xa8, 0x89, 0xaa, 0xab, 0xac, 0xad, 0xae, 0xaf, 0xb0}
	verifC43SecretB = uuid.UUID{0xb1, 0xb2, 0xb3, 0xb4, 0xb5, 0xb6, 0x47, 0xb8, 0x89, 0xba, 0xbb, 0xbc, 0xbd, 0xbe, 0xbf, 0xc0}
)

const (
	verifC43IP      = "192.0.2.7"
	verifC43OtherIP = "192.0.2.99"
)

// VerifMediaNeedsSession: media playlists and segments. Two muxers ('cam' with session A, 'other' with
// session B, both created from 192.0.2.7), an optional CDN session on 'cam', an optional CDN secret.
// The request reaches a muxer (with no instance it answers 500 there) only with the secret of a session of
// that muxer from that session's IP, or with the CDN secret when the muxer has a CDN session; otherwise 401.
func VerifMediaNeedsSession() {
	vnd.GoMode("defer") // the server's own event loop answers getMuxer when the handler waits for it
	cdnSecret := ""
	if vnd.Bool("cdnConfigured") {
		cdnSecret = "cdn-secret"
	}
	pm := &verifC43PM{}
	sctx, cancel := context.WithCancel(context.Background())
	s := &Server{PathManager: pm, Parent: verifC43Parent{}, CDNSecret: cdnSecret, ctx: sctx, ctxCancel: cancel,
		muxers: map[string]*muxer{}, chGetMuxer: make(chan serverGetMuxerReq)}
	s.httpServer = &httpServer{cdnSecret: cdnSecret, pathManager: pm, parent: s}
	sa := &session{secret: verifC43SecretA, ip: verifC43IP, pathName: "cam", server: s}
	sb := &session{secret: verifC43SecretB, ip: verifC43IP, pathName: "other", server: s}
	cam := &muxer{pathName: "cam", parent: s, sessionsBySecret: map[uuid.UUID]*session{verifC43SecretA: sa}}
	other := &muxer{pathName: "other", parent: s, sessionsBySecret: map[uuid.UUID]*session{verifC43SecretB: sb}}
	hasCDNSession := vnd.Bool("cdnSession")
	if hasCDNSession {
		cam.cdnSession = &session{isCDN: true, pathName: "cam", server: s}
	}
	s.muxers["cam"], s.muxers["other"] = cam, other

	dir := []string{"cam", "other", "none"}[vnd.Choose("dir", 3)]
	file := []string{"stream.m3u8", "seg1.mp4", "seg1.ts", "part1.mp"}[vnd.Choose("file", 4)]
	req := &http.Request{Method: http.MethodGet, URL: &url.URL{Path: "/" + dir + "/" + file}, Header: http.Header{}}
	req.RemoteAddr = verifC43IP + ":5000"
	sameIP := vnd.Bool("sameIP")
	if !sameIP {
		req.RemoteAddr = verifC43OtherIP + ":5000"
	}
	// the secret presented (if any)
	var presented uuid.UUID
	hasSecret := true
	switch vnd.Choose("secret", 4) {
	case 0:
		hasSecret = false
	case 1: // any 128-bit value in the query
		copy(presented[:], vnd.Bytes("secretBytes", 16))
		req.URL.RawQuery = sessionQueryParamName + "=" + presented.String()
	case 2: // session A's or B's secret in the cookie
		presented = verifC43SecretA
		if vnd.Bool("cookieB") {
			presented = verifC43SecretB
		}
		req.Header.Set("Cookie", sessionCookieName+"="+presented.String())
	default: // both: the cookie wins
		presented = verifC43SecretB
		req.Header.Set("Cookie", sessionCookieName+"="+verifC43SecretB.String())
		req.URL.RawQuery = sessionQueryParamName + "=" + verifC43SecretA.String()
	}
	// the Authorization header
	cdnPresented := false
	switch vnd.Choose("authorization", 3) {
	case 1:
		req.Header.Set("Authorization", "Bearer cdn-secret")
		cdnPresented = cdnSecret != ""
	case 2:
		guess := vnd.String("bearer", len("cdn-secret"))
		req.Header.Set("Authorization", "Bearer "+guess)
		cdnPresented = cdnSecret != "" && guess == "cdn-secret"
	}

	ctx, _ := gin.CreateTestContext(httptest.NewRecorder())
	ctx.Request = req
	s.wg.Add(1)
	go s.run()
	s.httpServer.onRequest(ctx)

	status := ctx.Writer.Status()
	reached := status == http.StatusInternalServerError // "muxer instance not available": past the gate
	var mx *muxer
	switch dir {
	case "cam":
		mx = cam
	case "other":
		mx = other
	}
	authorized := false
	if mx != nil {
		if cdnPresented {
			authorized = mx.cdnSession != nil
		} else if hasSecret {
			sx, ok := mx.sessionsBySecret[presented]
			authorized = ok && sameIP && sx.ip == verifC43IP
		}
	}
	vnd.Assert(!reached || authorized, "media is served only with the secret of a session of that path from its IP, or with the CDN secret")
	vnd.Assert(reached || status == http.StatusUnauthorized, "every other media request is answered 401")
	vnd.Assert(!authorized || reached, "a session's own requests are served")
	vnd.Assert(pm.added == 0 && len(cam.sessionsBySecret) == 1 && len(other.sessionsBySecret) == 1, "media requests create no session")
	vnd.Cover(reached && !cdnPresented, "served through a session secret")
	vnd.Cover(reached && cdnPresented, "served through the CDN secret")
	vnd.Cover(!reached && hasSecret && mx != nil, "secret presented, refused")
}

// VerifRefusedClientGetsNoSession: the multivariant playlist (where sessions are created) asked by a client
// the path manager refuses: no session is registered and the answer is 401.
func VerifRefusedClientGetsNoSession() {
	vnd.GoMode("defer")
	pm := &verifC43PM{}
	sctx, cancel := context.WithCancel(context.Background())
	s := &Server{PathManager: pm, Parent: verifC43Parent{}, ctx: sctx, ctxCancel: cancel,
		muxers: map[string]*muxer{}, chGetMuxer: make(chan serverGetMuxerReq)}
	s.httpServer = &httpServer{pathManager: pm, parent: s}
	cam := &muxer{pathName: "cam", parent: s, sessionsBySecret: map[uuid.UUID]*session{}}
	s.muxers["cam"] = cam
	req := &http.Request{Method: http.MethodGet, URL: &url.URL{Path: "/cam/index.m3u8", RawQuery: "cookieCheck=1"}, Header: http.Header{}, RemoteAddr: verifC43IP + ":5000"}
	if vnd.Bool("withCredentials") {
		req.Header.Set("Authorization", "Basic dTpw")
	}
	ctx, _ := gin.CreateTestContext(httptest.NewRecorder())
	ctx.Request = req
	s.wg.Add(1)
	go s.run()
	s.httpServer.onRequest(ctx)
	vnd.Assert(pm.added == 1, "the client is checked by the path manager")
	vnd.Assert(ctx.Writer.Status() == http.StatusUnauthorized && len(cam.sessionsBySecret) == 0 && cam.cdnSession == nil, "a refused client gets 401 and no session")
	vnd.Cover(true, "refused")
}
