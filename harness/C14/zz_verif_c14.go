package conf

import (
	"regexp"

	"github.com/bluenviron/mediamtx/internal/zzverif/vnd"
)

var verifC14Names = []string{"cam1", "x", "~^cam[0-9]$", "~^c(.*)$", "~^(.)am1$", "all_others", "all"}

func verifC14Conf(name string) *Path {
	p := &Path{Name: name}
	switch {
	case name == "all" || name == "all_others":
		p.Regexp = regexp.MustCompile("^.*$") // as Path.validate builds it
	case name[0] == '~':
		p.Regexp = regexp.MustCompile(name[1:])
	}
	return p
}

// VerifFindPathConf: resolution = exact entry, else (valid name) first matching regular-expression
// entry in name order with all/all_others last, else rejection — for every iteration order of the map.
func VerifFindPathConf() {
	vnd.MapOrder(true)
	confs := map[string]*Path{}
	var present []*Path
	for _, n := range verifC14Names {
		if vnd.Bool("has " + n) {
			c := verifC14Conf(n)
			confs[n] = c
			present = append(present, c)
		}
	}
	vnd.Assume(len(present) <= vnd.Bound("confs", 3))
	vnd.Assume(confs["all"] == nil || confs["all_others"] == nil) // Conf.Validate rejects both: they are aliases
	name := "cam" + string([]byte{vnd.Byte("c")})
	if vnd.Bool("short") {
		name = string([]byte{vnd.Byte("c")})
	}
	got, groups, err := FindPathConf(confs, name)

	// reference
	var want *Path
	if c, ok := confs[name]; ok {
		want = c
	} else if IsValidPathName(name) == nil {
		for _, c := range present {
			if c.Regexp == nil || !c.Regexp.MatchString(name) {
				continue
			}
			if want == nil {
				want = c
				continue
			}
			cAll := c.Name == "all" || c.Name == "all_others"
			wAll := want.Name == "all" || want.Name == "all_others"
			if (wAll && !cAll) || (wAll == cAll && c.Name < want.Name) {
				want = c
			}
		}
	}
	if want == nil {
		vnd.Assert(err != nil, "no configuration: the name is rejected")
	} else {
		vnd.Assert(err == nil && got == want, "resolution follows exact-then-ordered-regexp precedence, whatever the map order")
		if want.Regexp != nil && confs[name] == nil {
			ref := want.Regexp.FindStringSubmatch(name)
			same := len(ref) == len(groups)
			for i := range ref {
				same = same && i < len(groups) && ref[i] == groups[i]
			}
			vnd.Assert(same, "capture groups are those of the selected configuration's match")
		}
	}
	vnd.Cover(want != nil && want.Regexp != nil && len(present) >= 3, "regexp resolution among three")
	vnd.Cover(err != nil, "rejection reachable")
}
