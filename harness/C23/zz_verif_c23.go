package stream

import (
	"sync/atomic"
	"time"

	"github.com/bluenviron/gortsplib/v5/pkg/format"
	"github.com/pion/rtp"

	"github.com/bluenviron/mediamtx/internal/errordumper"
	"github.com/bluenviron/mediamtx/internal/logger"
	"github.com/bluenviron/mediamtx/internal/unit"
	"github.com/bluenviron/mediamtx/internal/zzverif/vnd"
)

type verifC23Log struct{}

func (verifC23Log) Log(logger.Level, string, ...any) {}

// VerifRepacketizeH264: a unit of 1..2 NAL units of arbitrary bytes written by a publisher that does not
// supply RTP packets: the server generates them. Every payload fits the maximum, sequence numbers are
// consecutive, all packets carry the unit's timestamp plus the format's offset, and the server's own
// depacketiser gives the delivered payload back.
func VerifRepacketizeH264() {
	maxSize := []int{3, 4, 6, 12}[vnd.Choose("maxPayload", 4)]
	forma := &format.H264{PayloadTyp: 96, PacketizationMode: 1}
	ssrc, seq := uint32(0x01020304), vnd.Uint16("firstSequenceNumber")
	enc, err := newRTPEncoder(forma, maxSize, &ssrc, &seq)
	vnd.Assume(err == nil)
	var inBytes, outBytes atomic.Uint64
	var sent []*rtp.Packet
	sf := &streamFormat{
		origFormat: forma, outFormat: forma, rtpMaxPayloadSize: maxSize, inboundBytes: &inBytes, outboundBytes: &outBytes,
		inboundFramesInError: &errordumper.Dumper{}, parent: verifC23Log{},
		writeRTSP:     func(pkts []*rtp.Packet, _ time.Time) { sent = append(sent, pkts...) },
		updateOutDesc: func(f func()) { f() },
		formatUpdater: newFormatUpdater(forma), unitRemuxer: newUnitRemuxer(forma),
		rtpEncoder: enc, rtpTimeOffset: vnd.Uint32("rtpTimeOffset"), onDatas: map[*Reader]OnDataFunc{},
	}
	ssf := &subStreamFormat{inFormat: forma, streamFormat: sf}

	n := 1 + vnd.Choose("nalus", vnd.Bound("nalus", 2))
	var au [][]byte
	for i := 0; i < n; i++ {
		nalu := vnd.Bytes("nalu", 1+vnd.Choose("naluLen", vnd.Bound("nalu_len", 5)))
		typ := nalu[0] & 0x1f
		// slices and SEI: parameter sets and delimiters are the remuxer's business (C22), 24..31 are RTP framing
		vnd.Assume(typ == 1 || typ == 5 || typ == 6)
		// forbidden_zero_bit is zero in a syntactically valid NAL unit (gortsplib's FU-A fragmenter does not carry it)
		vnd.Assume(nalu[0]&0x80 == 0)
		// emulation prevention: a NAL unit never contains 00 00 00 or 00 00 01 (gortsplib's depacketiser
		// treats them as Annex-B start codes and splits there)
		for k := 0; k+2 < len(nalu); k++ {
			vnd.Assume(!(nalu[k] == 0 && nalu[k+1] == 0 && nalu[k+2] <= 1))
		}
		au = append(au, nalu)
	}
	u := &unit.Unit{PTS: vnd.Int64("pts"), Payload: unit.PayloadH264(au)}
	err = ssf.writeUnitInner(u)
	vnd.Assert(err == nil, "a well-formed unit is packetised")
	vnd.Assert(len(sent) > 0 && len(sent) == len(u.RTPPackets), "the generated packets are the ones delivered")
	delivered, _ := u.Payload.(unit.PayloadH264)
	dec, derr := newRTPDecoder(forma)
	vnd.Assume(derr == nil)
	var back unit.Payload
	for i, pkt := range sent {
		vnd.Assert(len(pkt.Payload) <= maxSize, "every generated payload fits the configured maximum")
		vnd.Assert(pkt.SequenceNumber == seq+uint16(i), "sequence numbers are consecutive")
		vnd.Assert(pkt.Timestamp == sf.rtpTimeOffset+uint32(u.PTS), "every packet carries the unit's timestamp plus the format's offset")
		vnd.Assert(pkt.Marker == (i == len(sent)-1), "the last packet of the unit is marked")
		p, e := dec.decode(pkt)
		vnd.Assert(e == nil, "the generated packets depacketise")
		if p != nil {
			vnd.Assert(i == len(sent)-1 && back == nil, "the unit is complete with its last packet, not before")
			back = p
		}
	}
	got, _ := back.(unit.PayloadH264)
	vnd.Assert(len(got) == len(delivered), "depacketising gives the delivered NAL units back")
	for i := range got {
		if i < len(delivered) {
			vnd.Assert(string(got[i]) == string(delivered[i]), "depacketising gives the delivered NAL units back")
		}
	}
	vnd.Cover(len(sent) > 2, "a NAL unit fragmented over several packets")
	vnd.Cover(len(sent) == 1 && n == 2, "two NAL units aggregated in one packet")
}
