package conf

import (
	"net"
	"reflect"

	"github.com/bluenviron/mediamtx/internal/logger"
	"github.com/bluenviron/mediamtx/internal/zzverif/vnd"
)

// what an optional path carries behind its `any`: a pointer to a struct with optional values, lists and maps
type verifC11Values struct {
	MaxReaders *int
	Source     *string
	List       []string
	Map        map[string]*int
}

// VerifCloneIsIndependent: the real deepClone (what Conf.Clone and Path.Clone run) on a configuration with
// nested lists, maps, optional values and an optional path; then one arbitrary write through the copy, at
// any depth: the original keeps every value.
func VerifCloneIsIndependent() {
	n, k := vnd.Int("maxReaders"), vnd.Int("mapValue")
	src := vnd.String("source", 1)
	pass, user := Credential(vnd.String("pass", 1)), Credential(vnd.String("user", 1))
	ipByte := vnd.Byte("ipByte")
	orig := Conf{
		LogDestinations: LogDestinations{LogDestination(logger.DestinationStdout)},
		AuthInternalUsers: []AuthInternalUser{{
			User: user, Pass: pass,
			IPs:         IPNetworks{IPNetwork(net.IPNet{IP: net.IP{ipByte, 0, 2, 0}, Mask: net.IPMask{255, 255, 255, 0}})},
			Permissions: []AuthInternalUserPermission{{Action: AuthActionRead, Path: "p"}},
		}},
		PathDefaults: Path{ReadPass: &pass, Source: "publisher"},
		Paths:        map[string]*Path{"cam": {Name: "cam", Source: src, PublishPass: &pass, MaxReaders: n}},
		OptionalPaths: map[string]*OptionalPath{"cam": {Values: &verifC11Values{
			MaxReaders: &n, Source: &src, List: []string{src}, Map: map[string]*int{"k": &k}}}},
	}
	n0, k0, src0, pass0, user0 := n, k, src, pass, user

	clone := deepClone(reflect.ValueOf(orig)).Interface().(Conf)

	// the copy has the content of the original
	cv, ok := clone.OptionalPaths["cam"].Values.(*verifC11Values)
	vnd.Assert(ok && cv != nil && *cv.MaxReaders == n0 && *cv.Source == src0 && len(cv.List) == 1 && cv.List[0] == src0 && *cv.Map["k"] == k0, "the copy of an optional path carries the same values")
	vnd.Assert(len(clone.AuthInternalUsers) == 1 && clone.AuthInternalUsers[0].User == user0 && clone.AuthInternalUsers[0].Permissions[0].Path == "p" &&
		clone.AuthInternalUsers[0].IPs[0].IP[0] == ipByte && *clone.PathDefaults.ReadPass == pass0 && clone.Paths["cam"].MaxReaders == n0 && *clone.Paths["cam"].PublishPass == pass0,
		"the copy carries the same values")

	// one write through the copy
	nv, sv := vnd.Int("newInt"), vnd.String("newString", 1)
	switch vnd.Choose("write", 14) {
	case 0:
		clone.AuthInternalUsers[0].User = Credential(sv)
	case 1:
		clone.AuthInternalUsers[0].Permissions[0].Path = sv
	case 2:
		clone.AuthInternalUsers[0].IPs[0].IP[0] = byte(nv)
	case 3:
		clone.AuthInternalUsers[0].IPs[0].Mask[3] = byte(nv)
	case 4:
		*clone.PathDefaults.ReadPass = Credential(sv)
	case 5:
		clone.Paths["cam"].MaxReaders = nv
	case 6:
		*clone.Paths["cam"].PublishPass = Credential(sv)
	case 7:
		clone.Paths["other"] = &Path{Name: "other"}
		delete(clone.Paths, "cam")
	case 8:
		*cv.MaxReaders = nv
	case 9:
		*cv.Source = sv
	case 10:
		cv.List[0] = sv
	case 11:
		*cv.Map["k"] = nv
	case 12:
		cv.Map["z"] = &nv
		delete(clone.OptionalPaths, "cam")
	default:
		clone.LogDestinations[0] = LogDestination(logger.DestinationFile)
	}

	ov := orig.OptionalPaths["cam"].Values.(*verifC11Values)
	vnd.Assert(*ov.MaxReaders == n0 && *ov.Source == src0 && ov.List[0] == src0 && *ov.Map["k"] == k0 && len(ov.Map) == 1 && len(orig.OptionalPaths) == 1,
		"a write through the copy of an optional path never changes the original")
	u := orig.AuthInternalUsers[0]
	vnd.Assert(u.User == user0 && u.Pass == pass0 && u.Permissions[0].Path == "p" && u.IPs[0].IP[0] == ipByte && u.IPs[0].Mask[3] == 0, "a write through the copy never changes the original's users")
	vnd.Assert(*orig.PathDefaults.ReadPass == pass0 && len(orig.Paths) == 1 && orig.Paths["cam"].MaxReaders == n0 && *orig.Paths["cam"].PublishPass == pass0 && orig.LogDestinations[0] == LogDestination(logger.DestinationStdout),
		"a write through the copy never changes the original's paths and lists")
	vnd.Cover(true, "copied and written")
}
