#!/bin/sh
# C25: window clauses by the bit-vector engine, step clause by the integer encoding of the added duration
/verif/bin/symgo run -id C25 -tier "$1"; a=$?
/verif/bin/symgo intexpr -tier "$1"; b=$?
if [ $a -eq 1 ] || [ $b -eq 1 ]; then exit 1; fi
if [ $a -ne 0 ] || [ $b -ne 0 ]; then exit 2; fi
exit 0
