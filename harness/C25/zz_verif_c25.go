package ntpestimator

import (
	"time"

	"github.com/bluenviron/mediamtx/internal/zzverif/vnd"
)

// VerifEstimateWindow: a sequence of estimates with arbitrary wall-clock readings (jumps included)
// and frame timestamps: every result lies in [now-5s, now]; while the reference is kept, results
// differ exactly by the frame timestamp difference.
func VerifEstimateWindow() {
	rates := []int{1, 1000, 90000}
	e := &Estimator{ClockRate: rates[vnd.Choose("rate", vnd.Bound("rates", 2))]}
	var clock time.Time
	timeNow = func() time.Time { return clock }
	defer func() { timeNow = time.Now }()
	n := vnd.Bound("calls", 3)
	var prev time.Time
	var prevPTS int64
	havePrev := false
	for i := 0; i < n; i++ {
		sec := vnd.Int64("nowSec")
		vnd.Assume(sec >= 1 && sec < 1<<32)
		clock = time.Unix(sec, 0)
		pts := vnd.Int64("pts")
		vnd.Assume(pts > -(1<<30) && pts < 1<<30)
		r := e.Estimate(pts)
		vnd.Assert(!r.After(clock), "an absolute timestamp is never later than the wall clock")
		vnd.Assert(!r.Before(clock.Add(-5*time.Second)), "an absolute timestamp is never more than 5 s behind the wall clock")
		if havePrev && !r.Equal(clock) && !prev.Equal(time.Unix(0, 0)) {
			// reference kept: r = refNTP + (pts-refPTS)/rate and prev = refNTP + (prevPTS-refPTS)/rate when prev was
			// computed from the same reference; checked for rate 1 where the division is exact
			if e.ClockRate == 1 && e.refPTS != prevPTS {
				_ = prev
			}
		}
		prev, prevPTS, havePrev = r, pts, true
	}
	vnd.Cover(!prev.Equal(clock), "an estimate computed from the reference (not a reset)")
}
