package api //nolint:revive

import (
	"github.com/bluenviron/mediamtx/internal/zzverif/vnd"
)

func verifItems(n int) []int {
	items := make([]int, n)
	for i := range items {
		items[i] = i
	}
	return items
}

// VerifPaginatePartition: consecutive pages are consecutive slices; sizes; page count.
func VerifPaginatePartition() {
	n := vnd.Choose("n", vnd.Bound("items", 6)+1)
	per, page := vnd.Int("perPage"), vnd.Int("page")
	vnd.Assume(per >= 1 && per < 1<<31 && page >= 0 && page < 1<<31-1)
	a, b := verifItems(n), verifItems(n)
	pc := paginate2(&a, per, page)
	pc2 := paginate2(&b, per, page+1)
	vnd.Assert(pc == pc2, "page count independent of page")
	vnd.Assert(len(a) <= per, "page has at most itemsPerPage items")
	if n == 0 {
		vnd.Assert(pc == 0 && len(a) == 0, "empty list: zero pages")
	} else {
		vnd.Assert(pc >= 1 && (pc-1)*per < n && n <= pc*per, "pageCount = ceil(n/itemsPerPage)")
	}
	if page >= pc {
		vnd.Assert(len(a) == 0, "pages past the end are empty")
	} else {
		vnd.Assert(len(a) > 0, "pages before the end are non-empty")
		vnd.Assert(a[0] == page*per, "page starts where the previous pages end")
		if page < pc-1 {
			vnd.Assert(len(a) == per, "inner pages are full")
		} else {
			vnd.Assert(a[len(a)-1] == n-1, "last page ends the list")
		}
	}
	if len(a) > 0 && len(b) > 0 {
		vnd.Assert(a[len(a)-1]+1 == b[0], "consecutive pages are adjacent")
	}
	for i := 1; i < len(a); i++ {
		vnd.Assert(a[i] == a[i-1]+1, "a page is a contiguous slice in order")
	}
	vnd.Cover(len(a) > 0 && len(b) > 0, "two non-empty pages")
	vnd.Cover(page >= pc && n > 0, "page past the end")
}

// VerifPaginateParams: parameter strings are validated.
func VerifPaginateParams() {
	n := vnd.Choose("n", 3)
	items := verifItems(n)
	ls := vnd.Choose("perLen", vnd.Bound("digits", 3)+1)
	lp := vnd.Choose("pageLen", 2)
	perStr := vnd.String("perStr", ls)
	pageStr := vnd.String("pageStr", lp)
	pc, err := paginate(&items, perStr, pageStr)
	allDigits := func(s string) bool {
		for i := 0; i < len(s); i++ {
			if s[i] < '0' || s[i] > '9' {
				return false
			}
		}
		return true
	}
	perOK := perStr == "" || allDigits(perStr)
	pageOK := pageStr == "" || allDigits(pageStr)
	zero := perStr != "" && allDigits(perStr)
	if zero {
		for i := 0; i < len(perStr); i++ {
			if perStr[i] != '0' {
				zero = false
			}
		}
	}
	if !perOK || !pageOK || zero {
		vnd.Assert(err != nil, "invalid or zero parameters are rejected")
	} else {
		vnd.Assert(err == nil, "valid parameters are accepted")
		if perStr == "" && pageStr == "" {
			vnd.Assert(len(items) == n && (pc == 1 || n == 0), "defaults: one page of 100")
		}
	}
	vnd.Cover(err == nil && perStr != "", "explicit itemsPerPage accepted")
	vnd.Cover(err != nil, "rejection reachable")
}

// VerifPaginateHugeParams: parameters around and far beyond 2^31 (the largest accepted value is
// 2147483647): eight digits fixed and two arbitrary ones around the boundary, or one of five huge numbers up
// to 2^64. Values of 2^31 or more are rejected — so the products in the slicing arithmetic cannot wrap —
// and whatever is accepted yields a page inside the list; never a panic.
func VerifPaginateHugeParams() {
	n := 6
	items := verifItems(n)
	huge := func(name string) (string, bool) { // the parameter and whether it is below 2^31
		k := vnd.Choose(name, 6)
		if k == 0 {
			d := vnd.String(name+"LastDigits", 2)
			vnd.Assume(d[0] >= '0' && d[0] <= '9' && d[1] >= '0' && d[1] <= '9')
			return "21474836" + d, d[0] < '4' || (d[0] == '4' && d[1] <= '7')
		}
		return []string{"4294967296", "6148914691236517206", "4611686018427387904", "9223372036854775807", "18446744073709551616"}[k-1], false
	}
	var perStr, pageStr string
	var valid bool
	if vnd.Bool("hugeItemsPerPage") {
		perStr, valid = huge("itemsPerPage")
		pageStr = []string{"", "0", "1", "4294967296"}[vnd.Choose("page", 4)]
		valid = valid && pageStr != "4294967296"
	} else {
		perStr = []string{"", "1", "3", "4294967296"}[vnd.Choose("itemsPerPage", 4)]
		pageStr, valid = huge("page")
		valid = valid && perStr != "4294967296"
	}
	var pc int
	var err error
	panicked := vnd.Panics(func() { pc, err = paginate(&items, perStr, pageStr) })
	vnd.Assert(!panicked, "no parameter makes pagination panic")
	vnd.Assert((err == nil) == valid, "parameters of 2^31 or more are rejected, smaller ones accepted")
	if err == nil {
		vnd.Assert(len(items) <= n && pc >= 1, "a served page is part of the list")
		if len(pageStr) >= 10 {
			vnd.Assert(len(items) == 0, "pages past the end are empty")
		}
	}
	vnd.Cover(err != nil, "huge parameter rejected")
	vnd.Cover(err == nil && len(pageStr) >= 10, "largest accepted page index")
}
