package decrypt

import (
	"github.com/bluenviron/mediamtx/internal/zzverif/vnd"
)

// VerifDecryptNoPanic: arbitrary encrypted-file content and keys either fail or decrypt; never panic.
func VerifDecryptNoPanic() {
	lens := []int{0, 1, 4, 5, 8, 12, 16}
	n := lens[vnd.Choose("len", vnd.Bound("decrypt_lens", 5))]
	content := vnd.Bytes("content", n)
	key := vnd.String("key", vnd.Choose("keylen", 2))
	_, err := Decrypt(key, content)
	vnd.Assert(err != nil, "content shorter than a nonce cannot decrypt")
	vnd.Cover(n == 5, "five-byte content")
}

// VerifDecryptLong: a well-formed box (24-byte nonce + 16-byte tag + data, base64) with any key.
func VerifDecryptLong() {
	// base64 of 44 bytes 0x00..0x2b
	content := []byte("AAECAwQFBgcICQoLDA0ODxAREhMUFRYXGBkaGxwdHh8gISIjJCUmJygpKis=")
	key := vnd.String("key", vnd.Choose("keylen", 3))
	out, err := Decrypt(key, content)
	if err == nil {
		vnd.Assert(len(out) <= len(content), "plaintext not longer than the box")
	}
	vnd.Cover(true, "long content handled")
}
