package decrypt

import (
	"github.com/bluenviron/mediamtx/internal/zzverif/vnd"
)

// VerifDecryptNoPanic: arbitrary encrypted-file content and keys either fail or decrypt; never panic.
func VerifDecryptNoPanic() {
	lens := []int{0, 1, 4, 5, 8, 12, 16}
	n := lens[vnd.Choose("len", vnd.Bound("decrypt_lens", 5))]
	content := vnd.Bytes("content", n)
	key := vnd.String("key", vnd.Choose("keylen", 2))
	_, err := Decrypt(key, content)
	vnd.Assert(err != nil, "content shorter than a nonce cannot decrypt")
	vnd.Cover(n == 5, "five-byte content")
}

// VerifDecryptLong: a well-formed box (24-byte nonce + 16-byte tag + data, base64) with any key.
func VerifDecryptLong() {
	// base64 of 44 bytes 0x00..0x2b
	content := []byte("AAECAwQFBgcICQoLDA0ODxAREhMUFRYXGBkaGxwdHh8gISIjJCUmJygpKis=")
	key := vnd.String("key", vnd.Choose("keylen", 3))
	out, err := Decrypt(key, content)
	if err == nil {
		vnd.Assert(len(out) <= len(content), "plaintext not longer than the box")
	}
	vnd.Cover(true, "long content handled")
}

// VerifDecryptBoundary: contents around the nonce length (24 bytes = 32 base64 characters): a constant
// run of 'A's, optionally with a line break inside (ignored by the decoder), closed by four arbitrary
// bytes (padding, line breaks, garbage). Decrypt must answer with an error or a plaintext, never panic.
func VerifDecryptBoundary() {
	totals := []int{28, 31, 32, 33, 34, 36, 56}
	total := totals[vnd.Choose("total", vnd.Bound("boundary_lens", len(totals)))]
	content := make([]byte, 0, total)
	for i := 0; i < total-4; i++ {
		content = append(content, 'A')
	}
	if vnd.Bool("linebreak") {
		content[3] = '\n'
	}
	content = append(content, vnd.Bytes("tail", 4)...)
	key := vnd.String("key", vnd.Choose("keylen", 2))
	out, err := Decrypt(key, content)
	if err == nil {
		vnd.Assert(len(out) <= len(content), "plaintext not longer than the box")
	}
	vnd.Cover(err == nil, "content of nonce length or more decrypts")
	vnd.Cover(err != nil && total >= 32, "32 characters or more, still refused")
}
