package conf

import (
	"strings"

	"github.com/bluenviron/mediamtx/internal/zzverif/vnd"
)

// the shape of the run-time generated optional path type (one pointer per parameter): the parameters this
// harness sets, plus the six deprecated credential parameters that Validate looks up by name
type verifC10OptPath struct {
	PublishUser *Credential
	PublishPass *Credential
	PublishIPs  *IPNetworks
	ReadUser    *Credential
	ReadPass    *Credential
	ReadIPs     *IPNetworks

	Source                *string
	SourceOnDemand        *bool
	Record                *bool
	RecordPath            *string
	RecordSegmentDuration *Duration
	RecordDeleteAfter     *Duration
	MaxReaders            *int
}

// VerifValidatePostconditions: the default configuration with arbitrary time-outs, queue and payload sizes
// and one path (static, regular expression or catch-all name) with arbitrary source/on-demand/record
// settings: Validate answers with an error or with a configuration that satisfies the documented
// constraints; it never panics.
func VerifValidatePostconditions() {
	var c Conf
	c.setDefaults()
	c.ReadTimeout = Duration(vnd.Int64("readTimeout"))
	c.WriteTimeout = Duration(vnd.Int64("writeTimeout"))
	c.WriteQueueSize = vnd.Int("writeQueueSize")
	c.UDPMaxPayloadSize = vnd.Int("udpMaxPayloadSize")
	if vnd.Bool("deprecatedReadBufferCountSet") { // the deprecated alias of writeQueueSize
		n := vnd.Int("readBufferCount")
		c.ReadBufferCount = &n
	}

	name := []string{"cam", "~^r(.*)$", "all_others"}[vnd.Choose("name", 3)]
	source := []string{"publisher", "rtsp://host/path", "redirect", "not a source"}[vnd.Choose("source", 4)]
	onDemand := vnd.Bool("sourceOnDemand")
	recordPath := []string{
		"./recordings/%path/%Y-%m-%d_%H-%M-%S-%f",
		"./recordings/%path/%s",
		"./recordings/%Y-%m-%d_%H-%M-%S-%f",
		"./recordings/%path/%Y-%m-%d",
	}[vnd.Choose("recordPath", 4)]
	segment := Duration(vnd.Int64("recordSegmentDuration"))
	deleteAfter := Duration(vnd.Int64("recordDeleteAfter"))
	record := vnd.Bool("record")
	c.OptionalPaths = map[string]*OptionalPath{name: {Values: &verifC10OptPath{
		Source: &source, SourceOnDemand: &onDemand, Record: &record, RecordPath: &recordPath,
		RecordSegmentDuration: &segment, RecordDeleteAfter: &deleteAfter}}}

	err := c.Validate(nil)
	if err == nil {
		vnd.Assert(c.ReadTimeout > 0 && c.WriteTimeout > 0, "time-outs of a valid configuration are positive")
		vnd.Assert(c.WriteQueueSize > 0 && c.WriteQueueSize&(c.WriteQueueSize-1) == 0, "the write queue size of a valid configuration is a power of two")
		vnd.Assert(c.UDPMaxPayloadSize <= 1472, "the UDP payload size of a valid configuration fits an Ethernet frame")
		p := c.Paths[name]
		vnd.Assert(p != nil && p.Name == name && p.Source == source, "the path is there with its settings")
		if p != nil {
			vnd.Assert(source != "not a source", "a valid path has a valid source")
			vnd.Assert(strings.Contains(p.RecordPath, "%path"), "the record path of a valid path contains %path")
			full := strings.Contains(p.RecordPath, "%s") || (strings.Contains(p.RecordPath, "%Y") && strings.Contains(p.RecordPath, "%m") && strings.Contains(p.RecordPath, "%d") &&
				strings.Contains(p.RecordPath, "%H") && strings.Contains(p.RecordPath, "%M") && strings.Contains(p.RecordPath, "%S"))
			vnd.Assert(full, "the record path of a valid path contains a full timestamp")
			vnd.Assert(p.RecordDeleteAfter == 0 || p.RecordDeleteAfter >= p.RecordSegmentDuration, "deleteAfter of a valid path is not below the segment duration")
			static := p.Source != "publisher" && p.Source != "redirect"
			vnd.Assert(!(static && p.Regexp != nil) || p.SourceOnDemand, "a regular-expression or catch-all path with a static source is on demand")
			vnd.Assert((p.Regexp != nil) == (name != "cam"), "regular-expression and catch-all names get their expression")
		}
	}
	vnd.Cover(err == nil && name != "cam" && source == "rtsp://host/path", "valid on-demand static source on a regular-expression path")
	vnd.Cover(err != nil, "rejected")
}
