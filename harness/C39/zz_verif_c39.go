package forward

import (
	"github.com/bluenviron/mediamtx/internal/conf"
	"github.com/bluenviron/mediamtx/internal/logger"
	"github.com/bluenviron/mediamtx/internal/zzverif/vnd"
)

type verifParent struct{}

func (verifParent) Log(logger.Level, string, ...any) {}

// destinations nobody listens on: a forwarder fails to connect and waits to retry until stopped
var verifDests = []conf.ForwardDest{
	{Dest: "rtmp://127.0.0.1:1/a"},
	{Dest: "rtmp://127.0.0.1:1/b"},
	{Dest: "rtmp://127.0.0.1:1/a", DestFingerprint: "00"},
}

func verifList(name string) conf.Forward {
	n := vnd.Choose(name+"len", vnd.Bound("dests", 2)+1)
	l := make(conf.Forward, n)
	for i := range l {
		l[i] = verifDests[vnd.Choose(name, len(verifDests))]
	}
	return l
}

func verifStarted(h *DestHandler) bool { return h.ctx != nil }
func verifStopped(h *DestHandler) bool { return h.ctx != nil && h.ctx.Err() != nil }

// VerifForwardReconcile: Initialize, optional Start, ReloadConf, then Stop.
func VerifForwardReconcile() {
	vnd.GoMode("skip") // the forwarder goroutines themselves are not part of the reconciliation logic
	old := verifList("old")
	nw := verifList("new")
	m := &Manager{PathName: "p", Forward: old, Parent: verifParent{}}
	m.Initialize()
	vnd.Assert(len(m.destHandlers) == len(old), "one handler per configured destination")
	for i, h := range m.destHandlers {
		vnd.Assert(h.Conf == old[i] && h.Pos == i+1, "handlers follow the configuration order")
		vnd.Assert(!verifStarted(h), "no forwarder runs before the stream is available")
	}
	started := vnd.Bool("started")
	if started {
		m.Start(nil)
		for _, h := range m.destHandlers {
			vnd.Assert(verifStarted(h) && !verifStopped(h), "start runs every forwarder")
		}
	}
	before := append([]*DestHandler{}, m.destHandlers...)
	m.ReloadConf(nw)
	vnd.Assert(len(m.destHandlers) == len(nw), "after a reload: one handler per configured destination")
	for i, h := range m.destHandlers {
		vnd.Assert(h.Conf == nw[i] && h.Pos == i+1, "after a reload: handlers follow the new configuration order")
		if i < len(before) && old[i] == nw[i] {
			vnd.Assert(h == before[i], "an unchanged destination keeps its forwarder")
			vnd.Assert(verifStarted(h) == started && !verifStopped(h), "an unchanged destination is left untouched")
		} else {
			vnd.Assert(i >= len(before) || h != before[i], "a changed destination gets a new forwarder")
			vnd.Assert(verifStarted(h) == started && !verifStopped(h), "a new forwarder runs iff the stream is available")
		}
	}
	for i, h := range before {
		if i >= len(nw) || old[i] != nw[i] {
			vnd.Assert(verifStopped(h) == started, "a replaced or removed forwarder is stopped iff it was running")
		}
	}
	if started { // Stop is only ever called after Start (stream became unavailable)
		m.Stop()
	}
	for _, h := range m.destHandlers {
		vnd.Assert(!verifStarted(h) || verifStopped(h), "while the stream is unavailable no forwarder runs")
	}
	vnd.Cover(started && len(old) == 2 && len(nw) == 1, "running list shrinks")
	vnd.Cover(!started && len(nw) == 2, "idle reload")
}
