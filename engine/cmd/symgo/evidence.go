package main

import (
	"os/exec"
	"encoding/json"
	"fmt"
	"os"
	"path/filepath"
	"sort"
	"strings"

	"verif/engine/sym"
)

func writeEvidence(s *session, results []*sym.EntryResult, wall float64, inconclusive []string, validated int, extra map[string]interface{}) {
	verif, h, tier, seed, m := s.verif, &s.h, s.tier, s.seed, s.m
	cov := map[string]interface{}{}
	states, transitions, nviol := 0, 0, 0
	var samples []interface{}
	if m != nil {
		states = m.St.Paths
		transitions = m.St.Decisions + m.St.Merged
		var repoFns, depFns []string
		for f := range m.St.Funcs {
			if strings.Contains(f, "zzverif") {
				continue
			}
			if strings.Contains(f, modPath) {
				repoFns = append(repoFns, strings.ReplaceAll(f, modPath+"/", ""))
			} else {
				depFns = append(depFns, f)
			}
		}
		sort.Strings(repoFns)
		sort.Strings(depFns)
		var stubs []string
		for s, n := range m.St.Stubs {
			if strings.Contains(s, "zzverif/vnd") {
				continue
			}
			stubs = append(stubs, fmt.Sprintf("%s ×%d", s, n))
		}
		sort.Strings(stubs)
		if len(depFns) > 150 {
			depFns = append(depFns[:150], fmt.Sprintf("… %d more", len(depFns)-150))
		}
		cov["functions_encoded"] = map[string]interface{}{"repository": repoFns, "dependency": depFns, "engine_intrinsics": stubs}
		cov["queries"] = map[string]int{"sat": m.S.NSat, "unsat": m.S.NUnsat, "unknown": m.S.NUnknown, "cache_hits": m.S.NCacheHit,
			"assert": m.St.AssertQueries, "panic_checks": m.St.PanicQueries, "branch_feasibility": m.St.BranchQueries}
		cov["solver"] = m.S.Name
		cov["solver_s"] = m.S.Seconds
		cov["path_ends"] = m.St.PathEnds
		cov["merged_regions"] = m.St.Merged
		cov["merge_fallbacks"] = m.St.MergeFail
		cov["instructions_interpreted"] = m.St.Steps
		cov["bounds"] = m.BoundsUsed
		if len(m.St.InitFailed) > 0 {
			cov["package_init_incomplete"] = m.St.InitFailed
		}
		// top fork sites
		type fsn struct {
			s string
			n int
		}
		var fsl []fsn
		for s, n := range m.St.ForkSites {
			fsl = append(fsl, fsn{s, n})
		}
		sort.Slice(fsl, func(i, j int) bool { return fsl[i].n > fsl[j].n || fsl[i].n == fsl[j].n && fsl[i].s < fsl[j].s })
		var top []string
		for i, f := range fsl {
			if i >= 8 {
				break
			}
			top = append(top, fmt.Sprintf("%s ×%d", f.s, f.n))
		}
		cov["top_fork_sites"] = top
	}
	for _, r := range results {
		if r.Sample != nil {
			samples = append(samples, map[string]interface{}{"entry": r.Entry, "inputs": r.Sample})
		}
		for _, v := range r.Violations {
			if v.Reproduced {
				nviol++
			}
		}
	}
	if len(samples) == 0 {
		samples = append(samples, "no cover sample recorded")
	}
	if states == 0 {
		states = 0
	}
	cov["states"] = states
	cov["transitions"] = transitions
	cov["traces_validated_against_impl"] = validated
	cov["samples"] = samples
	cov["entries"] = results
	cov["inconclusive"] = inconclusive
	cov["outside_the_claim"] = h.Outside
	cov["stubs"] = h.Stubs
	cov["explanation"] = "bounded symbolic execution of the repository's SSA (regenerated from /repo on this run); states = explored path end states, transitions = solver-decided branch decisions + if-converted regions; every assertion and possible run-time panic on every path is an SMT query; traces_validated = solver models of the cover points replayed natively with the interpreter's verdict confirmed"
	for k, v := range extra {
		cov[k] = v
	}
	ev := map[string]interface{}{
		"property_id": h.Property,
		"tier":        tier,
		"seed":        seed,
		"level":       "model_checking",
		"coverage":    cov,
		"assumptions": h.Assumptions,
		"wall_s":      wall,
		"violations":  nviol,
	}
	if h.Assumptions == nil {
		ev["assumptions"] = []string{}
	}
	b, _ := json.MarshalIndent(ev, "", " ")
	os.MkdirAll(filepath.Join(verif, "evidence"), 0o755)
	os.WriteFile(filepath.Join(verif, "evidence", h.Property+".json"), b, 0o644)
}


// replayTestSource runs a recorded generated test (C24 replays) against /repo.
func replayTestSource(verif, repo, pkgRel, src string) int {
	work := filepath.Join(verif, ".work", "C24", "replay-cmd")
	os.MkdirAll(work, 0o755)
	tf := filepath.Join(work, "zz_verif_c24_replay_test.go")
	os.WriteFile(tf, []byte(src), 0o644)
	repl := map[string]string{filepath.Join(repo, pkgRel, "zz_verif_c24_replay_test.go"): tf}
	for _, e := range []string{"internal/core/VERSION", "internal/servers/hls/hls.min.js"} {
		if _, err := os.Stat(filepath.Join(repo, e)); err != nil {
			repl[filepath.Join(repo, e)] = filepath.Join(verif, "embed", filepath.Base(e))
		}
	}
	ovb, _ := json.Marshal(map[string]interface{}{"Replace": repl})
	ovf := filepath.Join(work, "overlay.json")
	os.WriteFile(ovf, ovb, 0o644)
	cmd := exec.Command("go", "test", "-vet=off", "-count=1", "-run", "^TestVerifC2[45]Replay$", "-v", "-overlay", ovf, "./"+pkgRel)
	cmd.Dir = repo
	cmd.Env = sym.GoEnv()
	out, _ := cmd.CombinedOutput()
	fmt.Print(string(out))
	if strings.Contains(string(out), "VERIF-C24 MISMATCH") || strings.Contains(string(out), "VERIF-C25 MISMATCH") || strings.Contains(string(out), "panic:") {
		return 1
	}
	return 0
}
