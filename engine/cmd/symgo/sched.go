package main

import (
	"encoding/json"
	"fmt"
	"os"
	"path/filepath"
	"sort"
	"strings"
	"time"
)

// fileSched balances pending decision prefixes between worker processes
// through a pool directory (atomic renames; no network, no shared memory).
type fileSched struct {
	dir    string
	id, n  int
	seq    int
	donate int // statistics
	taken  int
}

func newFileSched(dir string, id, n int) *fileSched {
	os.MkdirAll(dir, 0o755)
	s := &fileSched{dir: dir, id: id, n: n}
	s.setStatus("busy")
	return s
}

func (s *fileSched) setStatus(st string) {
	tmp := filepath.Join(s.dir, fmt.Sprintf(".status-%d.tmp", s.id))
	os.WriteFile(tmp, []byte(st), 0o644)
	os.Rename(tmp, filepath.Join(s.dir, fmt.Sprintf("status-%d", s.id)))
}

func (s *fileSched) poolItems() []string {
	ents, err := os.ReadDir(s.dir)
	if err != nil {
		return nil
	}
	var items []string
	for _, e := range ents {
		if strings.HasPrefix(e.Name(), "item-") {
			items = append(items, e.Name())
		}
	}
	sort.Strings(items)
	return items
}

// Yield donates the shallowest half of the local work when the pool runs low.
func (s *fileSched) Yield(work *[][]int64) {
	w := *work
	if len(w) < 4 {
		return
	}
	if len(s.poolItems()) >= s.n {
		return
	}
	k := len(w) / 2
	give := w[:k]
	// one item per prefix so that several idle workers can be served
	for _, p := range give {
		s.seq++
		b, _ := json.Marshal([][]int64{p})
		tmp := filepath.Join(s.dir, fmt.Sprintf(".tmp-%d-%d", s.id, s.seq))
		os.WriteFile(tmp, b, 0o644)
		os.Rename(tmp, filepath.Join(s.dir, fmt.Sprintf("item-%03d-%06d", s.id, s.seq)))
		s.donate++
	}
	*work = append([][]int64{}, w[k:]...)
}

// Idle waits for pooled work; returns nil when every worker is idle and the pool is empty.
func (s *fileSched) Idle() [][]int64 {
	s.setStatus("idle")
	for {
		items := s.poolItems()
		if len(items) > 0 {
			s.setStatus("busy")
			for _, it := range items {
				src := filepath.Join(s.dir, it)
				dst := filepath.Join(s.dir, fmt.Sprintf(".claimed-%d-%s", s.id, it))
				if os.Rename(src, dst) != nil {
					continue // someone else took it
				}
				b, err := os.ReadFile(dst)
				os.Remove(dst)
				if err != nil {
					continue
				}
				var ps [][]int64
				if json.Unmarshal(b, &ps) == nil && len(ps) > 0 {
					for i := range ps {
						if ps[i] == nil {
							ps[i] = []int64{}
						}
					}
					s.taken += len(ps)
					return ps
				}
			}
			s.setStatus("idle")
			continue
		}
		allIdle := true
		for i := 0; i < s.n; i++ {
			b, err := os.ReadFile(filepath.Join(s.dir, fmt.Sprintf("status-%d", i)))
			if err != nil || string(b) != "idle" {
				// a worker that has not started yet counts as busy unless it is marked done
				if err == nil && string(b) == "done" {
					continue
				}
				allIdle = false
				break
			}
		}
		if allIdle && len(s.poolItems()) == 0 {
			return nil
		}
		time.Sleep(30 * time.Millisecond)
	}
}

func (s *fileSched) done() { s.setStatus("done") }
