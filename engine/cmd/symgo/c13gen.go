package main

// c13gen: static data-flow over the SSA of core.(*Core).createResources, regenerated on
// every run. For each component (a field of Core that createResources fills with a
// freshly built object) it computes
//
//	Uses(X)  the conf.Conf fields whose values flow into the object (its composite
//	         literal fields and the conditions guarding its construction), and
//	Refs(X)  the other Core components stored into it,
//
// and emits a Go source file (harness data) with the (component, field) pairs and a
// builder of two configurations that differ in exactly one chosen field.

import (
	"encoding/json"
	"flag"
	"fmt"
	"go/types"
	"os"
	"path/filepath"
	"sort"
	"strings"

	"golang.org/x/tools/go/ssa"

	"verif/engine/sym"
)

type c13Comp struct {
	Name string   `json:"component"`
	Type string   `json:"type"`
	Uses []string `json:"uses"`
	Refs []string `json:"refs"`
}

func cmdC13Gen(args []string) int {
	fs := flag.NewFlagSet("c13gen", flag.ExitOnError)
	verif := fs.String("verif", "/verif", "")
	repo := fs.String("repo", repoDefault, "")
	out := fs.String("out", "", "generated Go file")
	jsonOut := fs.String("json", "", "analysis result (JSON)")
	fs.Parse(args)
	var h Harness
	ov, _, err := buildOverlay(*verif, *repo, &h, "")
	if err != nil {
		fmt.Println("ENGINE-ERROR:", err)
		return 2
	}
	prog, pkgs, _, err := sym.Load(*repo, ov, []string{"./internal/core"}, nil)
	if err != nil {
		fmt.Println("ENGINE-ERROR: load:", err)
		return 2
	}
	var core *ssa.Package
	for _, p := range pkgs {
		if p != nil && p.Pkg.Path() == modPath+"/internal/core" {
			core = p
		}
	}
	if core == nil {
		fmt.Println("ENGINE-ERROR: core package not loaded")
		return 2
	}
	coreT := core.Type("Core").Type()
	fn := prog.LookupMethod(types.NewPointer(coreT), core.Pkg, "createResources")
	if fn == nil || fn.Blocks == nil {
		fmt.Println("ENGINE-ERROR: createResources not found")
		return 2
	}
	coreStruct := coreT.Underlying().(*types.Struct)
	confPkg := prog.ImportedPackage(modPath + "/internal/conf")
	confT := confPkg.Type("Conf").Type()
	confStruct := confT.Underlying().(*types.Struct)
	isConfPtr := func(t types.Type) bool {
		p, ok := t.Underlying().(*types.Pointer)
		return ok && types.Identical(p.Elem(), confT)
	}
	isCorePtr := func(t types.Type) bool {
		p, ok := t.Underlying().(*types.Pointer)
		return ok && types.Identical(p.Elem(), coreT)
	}
	// backward slice collecting conf fields and core fields
	type acc struct {
		conf map[string]bool
		core map[string]bool
	}
	var slice func(v ssa.Value, a *acc, seen map[ssa.Value]bool)
	slice = func(v ssa.Value, a *acc, seen map[ssa.Value]bool) {
		if v == nil || seen[v] {
			return
		}
		seen[v] = true
		switch x := v.(type) {
		case *ssa.FieldAddr:
			if isConfPtr(x.X.Type()) {
				a.conf[confStruct.Field(x.Field).Name()] = true
				return
			}
			if isCorePtr(x.X.Type()) {
				a.core[coreStruct.Field(x.Field).Name()] = true
				return
			}
		case *ssa.Const, *ssa.Global, *ssa.Function, *ssa.Parameter, *ssa.Builtin:
			return
		case *ssa.Alloc:
			// a local: follow the stores into it
			for _, r := range *x.Referrers() {
				if st, ok := r.(*ssa.Store); ok && st.Addr == x {
					slice(st.Val, a, seen)
				}
			}
			return
		}
		if in, ok := v.(ssa.Instruction); ok {
			for _, op := range in.Operands(nil) {
				if op != nil && *op != nil {
					slice(*op, a, seen)
				}
			}
		}
	}
	var comps []c13Comp
	for _, b := range fn.Blocks {
		for _, in := range b.Instrs {
			st, ok := in.(*ssa.Store)
			if !ok {
				continue
			}
			fa, ok := st.Addr.(*ssa.FieldAddr)
			if !ok || !isCorePtr(fa.X.Type()) {
				continue
			}
			al, ok := st.Val.(*ssa.Alloc)
			if !ok || !al.Heap {
				continue
			}
			a := &acc{conf: map[string]bool{}, core: map[string]bool{}}
			seen := map[ssa.Value]bool{}
			// fields of the composite literal
			for _, r := range *al.Referrers() {
				f2, ok := r.(*ssa.FieldAddr)
				if !ok || f2.X != al {
					continue
				}
				for _, r2 := range *f2.Referrers() {
					if s2, ok := r2.(*ssa.Store); ok && s2.Addr == f2 {
						slice(s2.Val, a, seen)
					}
				}
			}
			// guards: conditions of dominating If blocks whose true branch leads here
			for d := al.Block().Idom(); d != nil; d = d.Idom() {
				iff, ok := d.Instrs[len(d.Instrs)-1].(*ssa.If)
				if !ok {
					continue
				}
				if d.Succs[0] == al.Block() || d.Succs[0].Dominates(al.Block()) {
					slice(iff.Cond, a, seen)
				}
			}
			name := coreStruct.Field(fa.Field).Name()
			delete(a.core, name)
			c := c13Comp{Name: name, Type: types.TypeString(deref2(al.Type()), func(p *types.Package) string { return p.Name() })}
			for f := range a.conf {
				c.Uses = append(c.Uses, f)
			}
			for f := range a.core {
				c.Refs = append(c.Refs, f)
			}
			sort.Strings(c.Uses)
			sort.Strings(c.Refs)
			comps = append(comps, c)
		}
	}
	sort.Slice(comps, func(i, j int) bool { return comps[i].Name < comps[j].Name })
	if len(comps) < 10 {
		fmt.Printf("ENGINE-ERROR: only %d components recognised in createResources\n", len(comps))
		return 2
	}
	if *jsonOut != "" {
		b, _ := json.MarshalIndent(comps, "", " ")
		os.MkdirAll(filepath.Dir(*jsonOut), 0o755)
		os.WriteFile(*jsonOut, b, 0o644)
	}
	// ---- code generation
	var sb strings.Builder
	sb.WriteString("// Code generated by symgo c13gen from the SSA of createResources. DO NOT EDIT.\n\npackage core\n\nimport (\n")
	sb.WriteString("\t\"" + modPath + "/internal/conf\"\n\t\"" + modPath + "/internal/zzverif/vnd\"\n)\n\n")
	// field table: only fields with a supported kind get a mutation
	type fld struct {
		name, kind, typ, elem string
	}
	qual := func(p *types.Package) string {
		if p.Path() == modPath+"/internal/conf" {
			return "conf"
		}
		return p.Name()
	}
	var fields []fld
	skipped := map[string]string{}
	basicKind := func(t types.Type) string {
		b, ok := t.Underlying().(*types.Basic)
		if !ok {
			return ""
		}
		switch {
		case b.Info()&types.IsString != 0:
			return "string"
		case b.Info()&types.IsBoolean != 0:
			return "bool"
		case b.Info()&types.IsInteger != 0:
			return "int"
		}
		return ""
	}
	usable := func(t types.Type) bool {
		// types from packages other than conf cannot be named in the generated file without more imports
		ok := true
		var walk func(t types.Type)
		walk = func(t types.Type) {
			switch x := t.(type) {
			case *types.Named:
				if x.Obj().Pkg() != nil && x.Obj().Pkg().Path() != modPath+"/internal/conf" {
					ok = false
				}
			case *types.Pointer:
				walk(x.Elem())
			case *types.Slice:
				walk(x.Elem())
			}
		}
		walk(t)
		return ok
	}
	for i := 0; i < confStruct.NumFields(); i++ {
		f := confStruct.Field(i)
		t := f.Type()
		ts := types.TypeString(t, qual)
		if !usable(t) {
			skipped[f.Name()] = "type from another package: " + ts
			continue
		}
		if k := basicKind(t); k != "" {
			fields = append(fields, fld{f.Name(), k, ts, ""})
			continue
		}
		switch u := t.Underlying().(type) {
		case *types.Pointer:
			if k := basicKind(u.Elem()); k != "" {
				fields = append(fields, fld{f.Name(), "ptr-" + k, ts, types.TypeString(u.Elem(), qual)})
				continue
			}
		case *types.Slice:
			if k := basicKind(u.Elem()); k != "" {
				fields = append(fields, fld{f.Name(), "slice-" + k, ts, types.TypeString(u.Elem(), qual)})
			} else {
				fields = append(fields, fld{f.Name(), "slice-other", ts, types.TypeString(u.Elem(), qual)})
			}
			continue
		}
		skipped[f.Name()] = "kind not varied: " + ts
	}
	fieldIdx := map[string]int{}
	for i, f := range fields {
		fieldIdx[f.name] = i
	}
	// pairs (component, field, via)
	compIdx := map[string]int{}
	for i, c := range comps {
		compIdx[c.Name] = i
	}
	type pair struct {
		comp, field int
		via         string
	}
	var pairs []pair
	inPlace := map[string]bool{"AuthInternalUsers": true, "Paths": true} // reloaded in place, not by recreation
	for ci, c := range comps {
		seenF := map[string]bool{}
		var addFrom func(from c13Comp, via string, depth int)
		addFrom = func(from c13Comp, via string, depth int) {
			for _, f := range from.Uses {
				if seenF[f] || inPlace[f] {
					continue
				}
				if fi, ok := fieldIdx[f]; ok {
					seenF[f] = true
					pairs = append(pairs, pair{ci, fi, via})
				}
			}
			if depth > 3 {
				return
			}
			for _, r := range from.Refs {
				if j, ok := compIdx[r]; ok && r != c.Name {
					addFrom(comps[j], r, depth+1)
				}
			}
		}
		addFrom(c, "", 0)
	}
	fmt.Fprintf(&sb, "var verifC13Components = []string{")
	for _, c := range comps {
		fmt.Fprintf(&sb, "%q, ", c.Name)
	}
	sb.WriteString("}\n\nvar verifC13Fields = []string{")
	for _, f := range fields {
		fmt.Fprintf(&sb, "%q, ", f.name)
	}
	sb.WriteString("}\n\n// verifC13Pairs: component index, field index, and the referenced component the field reaches it through.\nvar verifC13Pairs = []struct {\n\tComp, Field int\n\tVia         string\n}{\n")
	for _, p := range pairs {
		fmt.Fprintf(&sb, "\t{%d, %d, %q}, // %s ← %s\n", p.comp, p.field, p.via, comps[p.comp].Name, fields[p.field].name)
	}
	sb.WriteString("}\n\n")
	// component setters
	sb.WriteString("func verifC13New[T any](pp **T) { *pp = new(T) }\n\nfunc verifC13SetComponent(p *Core, comp int) {\n\tswitch comp {\n")
	for i, c := range comps {
		fmt.Fprintf(&sb, "\tcase %d:\n\t\tverifC13New(&p.%s) // %s\n", i, c.Name, c.Type)
	}
	sb.WriteString("\t}\n}\n\nfunc verifC13ComponentNil(p *Core, comp int) bool {\n\tswitch comp {\n")
	for i, c := range comps {
		fmt.Fprintf(&sb, "\tcase %d:\n\t\treturn p.%s == nil\n", i, c.Name)
	}
	sb.WriteString("\t}\n\treturn false\n}\n\n")
	// builder
	sb.WriteString("// verifC13Build returns two configurations with equal values in distinct memory, except that\n// field mut (if >= 0) differs. With distinct, equal optional values live in different\n// allocations in the two configurations (as after Clone or a fresh Load); otherwise they share one.\nfunc verifC13Build(mut int, distinct bool) (*conf.Conf, *conf.Conf) {\n\ta, b := &conf.Conf{}, &conf.Conf{}\n")
	for i, f := range fields {
		fmt.Fprintf(&sb, "\t{ // %s %s\n", f.name, f.typ)
		switch f.kind {
		case "string":
			fmt.Fprintf(&sb, "\t\tx := vnd.String(%q, 1)\n\t\ty := x\n\t\tif mut == %d {\n\t\t\ty = vnd.String(%q, 1)\n\t\t\tvnd.Assume(x != y)\n\t\t}\n\t\ta.%s, b.%s = %s(x), %s(y)\n", f.name, i, f.name+"'", f.name, f.name, f.typ, f.typ)
		case "bool":
			fmt.Fprintf(&sb, "\t\tx := vnd.Bool(%q)\n\t\ty := x\n\t\tif mut == %d {\n\t\t\ty = !x\n\t\t}\n\t\ta.%s, b.%s = %s(x), %s(y)\n", f.name, i, f.name, f.name, f.typ, f.typ)
		case "int":
			fmt.Fprintf(&sb, "\t\tx := vnd.Int64(%q)\n\t\ty := x\n\t\tif mut == %d {\n\t\t\ty = vnd.Int64(%q)\n\t\t\tvnd.Assume(%s(x) != %s(y))\n\t\t}\n\t\ta.%s, b.%s = %s(x), %s(y)\n", f.name, i, f.name+"'", f.typ, f.typ, f.name, f.name, f.typ, f.typ)
		case "ptr-string":
			fmt.Fprintf(&sb, "\t\tx := vnd.String(%q, 1)\n\t\ty := x\n\t\tif mut == %d {\n\t\t\ty = vnd.String(%q, 1)\n\t\t\tvnd.Assume(x != y)\n\t\t}\n\t\tpx, py := new(%s), new(%s)\n\t\t*px, *py = %s(x), %s(y)\n\t\tif !distinct && mut != %d {\n\t\t\tpy = px\n\t\t}\n\t\ta.%s, b.%s = px, py\n", f.name, i, f.name+"'", f.elem, f.elem, f.elem, f.elem, i, f.name, f.name)
		case "ptr-bool":
			fmt.Fprintf(&sb, "\t\tx := vnd.Bool(%q)\n\t\ty := x\n\t\tif mut == %d {\n\t\t\ty = !x\n\t\t}\n\t\tpx, py := new(%s), new(%s)\n\t\t*px, *py = %s(x), %s(y)\n\t\tif !distinct && mut != %d {\n\t\t\tpy = px\n\t\t}\n\t\ta.%s, b.%s = px, py\n", f.name, i, f.elem, f.elem, f.elem, f.elem, i, f.name, f.name)
		case "ptr-int":
			fmt.Fprintf(&sb, "\t\tx := vnd.Int64(%q)\n\t\ty := x\n\t\tif mut == %d {\n\t\t\ty = vnd.Int64(%q)\n\t\t\tvnd.Assume(%s(x) != %s(y))\n\t\t}\n\t\tpx, py := new(%s), new(%s)\n\t\t*px, *py = %s(x), %s(y)\n\t\tif !distinct && mut != %d {\n\t\t\tpy = px\n\t\t}\n\t\ta.%s, b.%s = px, py\n", f.name, i, f.name+"'", f.elem, f.elem, f.elem, f.elem, f.elem, f.elem, i, f.name, f.name)
		case "slice-string":
			fmt.Fprintf(&sb, "\t\tx := vnd.String(%q, 1)\n\t\ty := x\n\t\tif mut == %d {\n\t\t\ty = vnd.String(%q, 1)\n\t\t\tvnd.Assume(x != y)\n\t\t}\n\t\ta.%s, b.%s = %s{%s(x)}, %s{%s(y)}\n", f.name, i, f.name+"'", f.name, f.name, f.typ, f.elem, f.typ, f.elem)
		case "slice-int":
			fmt.Fprintf(&sb, "\t\tx := vnd.Int64(%q)\n\t\ty := x\n\t\tif mut == %d {\n\t\t\ty = vnd.Int64(%q)\n\t\t\tvnd.Assume(%s(x) != %s(y))\n\t\t}\n\t\ta.%s, b.%s = %s{%s(x)}, %s{%s(y)}\n", f.name, i, f.name+"'", f.elem, f.elem, f.name, f.name, f.typ, f.elem, f.typ, f.elem)
		case "slice-bool":
			fmt.Fprintf(&sb, "\t\tx := vnd.Bool(%q)\n\t\ty := x\n\t\tif mut == %d {\n\t\t\ty = !x\n\t\t}\n\t\ta.%s, b.%s = %s{%s(x)}, %s{%s(y)}\n", f.name, i, f.name, f.name, f.typ, f.elem, f.typ, f.elem)
		case "slice-other":
			fmt.Fprintf(&sb, "\t\ta.%s, b.%s = make(%s, 1), make(%s, 1)\n\t\tif mut == %d {\n\t\t\tb.%s = make(%s, 2)\n\t\t}\n", f.name, f.name, f.typ, f.typ, i, f.name, f.typ)
		}
		sb.WriteString("\t}\n")
	}
	sb.WriteString("\treturn a, b\n}\n")
	if *out != "" {
		os.MkdirAll(filepath.Dir(*out), 0o755)
		if err := os.WriteFile(*out, []byte(sb.String()), 0o644); err != nil {
			fmt.Println("ENGINE-ERROR:", err)
			return 2
		}
	}
	var sk []string
	for k, v := range skipped {
		sk = append(sk, k+" ("+v+")")
	}
	sort.Strings(sk)
	fmt.Printf("c13gen: %d components, %d configuration fields varied, %d (component, field) pairs; fields not varied: %s\n", len(comps), len(fields), len(pairs), strings.Join(sk, "; "))
	return 0
}

func deref2(t types.Type) types.Type {
	if p, ok := t.Underlying().(*types.Pointer); ok {
		return p.Elem()
	}
	return t
}
