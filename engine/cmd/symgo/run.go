// Command symgo runs verification harnesses symbolically over the SSA of /repo.
package main

import (
	"bufio"
	"encoding/json"
	"flag"
	"fmt"
	"os"
	"os/exec"
	"path/filepath"
	"regexp"
	"sort"
	"strconv"
	"strings"
	"sync"
	"time"

	"golang.org/x/tools/go/packages"
	"golang.org/x/tools/go/ssa"

	"verif/engine/sym"
)

// Unit is a set of harness entries living in one package of the repository.
type Unit struct {
	Dir     string   `json:"dir"`
	Files   []string `json:"files"`
	Entries []string `json:"entries"`
	// Thorough-only entries
	ThoroughEntries []string `json:"thorough_entries,omitempty"`
}

// Harness is harness.json.
type Harness struct {
	Property    string                    `json:"property"`
	Units       []Unit                    `json:"units"`
	Bounds      map[string]map[string]int `json:"bounds"`
	MaxPaths    map[string]int            `json:"max_paths"`
	MaxSteps    map[string]int            `json:"max_steps"`
	TimeoutMs   map[string]int            `json:"solver_timeout_ms"`
	Jobs        map[string]int            `json:"jobs"`
	Assumptions []string                  `json:"assumptions"`
	Stubs       []string                  `json:"stubs"`
	Outside     []string                  `json:"outside"`
	Encoded     []string                  `json:"encoded"`
	SkipInit    []string                  `json:"skip_init"`
	NoValidate  bool                      `json:"no_validate"`
	NoMerge     bool                      `json:"no_merge"`
	ExtraFiles  map[string]string         `json:"extra_files"` // repo-relative path → harness-dir file
}

const (
	repoDefault = "/repo"
	modPath     = "github.com/bluenviron/mediamtx"
)

func main() {
	// go/packages and os/exec resolve "go" through this process's PATH
	os.Setenv("PATH", "/opt/veriftools/go1.26.8/bin:"+os.Getenv("PATH"))
	os.Setenv("GOFLAGS", "-mod=mod")
	os.Setenv("GOPROXY", "off")
	os.Setenv("GOSUMDB", "off")
	os.Setenv("GOTOOLCHAIN", "local")
	if len(os.Args) < 2 {
		fmt.Fprintln(os.Stderr, "usage: symgo run|worker|replay|intenc ...")
		os.Exit(2)
	}
	switch os.Args[1] {
	case "run":
		os.Exit(cmdRun(os.Args[2:]))
	case "worker":
		os.Exit(cmdWorker(os.Args[2:]))
	case "replay":
		os.Exit(cmdReplay(os.Args[2:]))
	case "intenc":
		os.Exit(cmdIntenc(os.Args[2:]))
	case "intexpr":
		os.Exit(cmdIntexpr(os.Args[2:]))
	case "c13gen":
		os.Exit(cmdC13Gen(os.Args[2:]))
	default:
		fmt.Fprintln(os.Stderr, "unknown command", os.Args[1])
		os.Exit(2)
	}
}

type known struct {
	property, key, text string
}

func loadKnown(path string) []known {
	f, err := os.Open(path)
	if err != nil {
		return nil
	}
	defer f.Close()
	var out []known
	sc := bufio.NewScanner(f)
	re := regexp.MustCompile(`^known:\s+property=(\S+)\s+key=(\S+)\s*(.*)$`)
	for sc.Scan() {
		if m := re.FindStringSubmatch(strings.TrimSpace(sc.Text())); m != nil {
			out = append(out, known{m[1], m[2], m[3]})
		}
	}
	return out
}

func buildOverlay(verif, repo string, h *Harness, hdir string) (map[string][]byte, map[string]string, error) {
	ov := map[string][]byte{}
	paths := map[string]string{} // virtual → real
	add := func(virtual, real string) error {
		b, err := os.ReadFile(real)
		if err != nil {
			return err
		}
		ov[virtual] = b
		paths[virtual] = real
		return nil
	}
	if err := add(filepath.Join(repo, "internal/zzverif/vnd/vnd.go"), filepath.Join(verif, "vnd/vnd.go")); err != nil {
		return nil, nil, err
	}
	for _, u := range h.Units {
		for _, f := range u.Files {
			if err := add(filepath.Join(repo, u.Dir, f), filepath.Join(hdir, f)); err != nil {
				return nil, nil, err
			}
		}
	}
	for v, r := range h.ExtraFiles {
		if err := add(filepath.Join(repo, v), filepath.Join(hdir, r)); err != nil {
			return nil, nil, err
		}
	}
	// generated files the pinned tree lacks (needed by //go:embed)
	for _, e := range []string{"internal/core/VERSION", "internal/servers/hls/hls.min.js"} {
		p := filepath.Join(repo, e)
		if _, err := os.Stat(p); err != nil {
			real := filepath.Join(verif, "embed", filepath.Base(e))
			if err := add(p, real); err != nil {
				return nil, nil, err
			}
		}
	}
	return ov, paths, nil
}

// session is a loaded harness with its program, solver and machine.
type session struct {
	verif, repo, hdir, tier string
	h                       Harness
	ovPaths                 map[string]string
	prog                    *ssa.Program
	initial                 []*packages.Package
	solver                  *sym.Solver
	m                       *sym.Machine
	cfg                     sym.Config
	loadS                   float64
	seed                    int
}

type commonFlags struct {
	id, tier, verif, repo, solver *string
	noMerge, verbose, trace       *bool
}

func addCommon(fs *flag.FlagSet) *commonFlags {
	return &commonFlags{
		id:      fs.String("id", "", "property id"),
		tier:    fs.String("tier", "quick", "quick|thorough"),
		verif:   fs.String("verif", "/verif", "verification root"),
		repo:    fs.String("repo", repoDefault, "repository root"),
		solver:  fs.String("solver", "portfolio", "portfolio|z3|z3-new|cvc5"),
		noMerge: fs.Bool("nomerge", false, "disable region merging"),
		verbose: fs.Bool("v", false, "verbose"),
		trace:   fs.Bool("trace", false, "trace instructions"),
	}
}

func open(cf *commonFlags) (*session, error) {
	s := &session{verif: *cf.verif, repo: *cf.repo, tier: *cf.tier}
	s.hdir = filepath.Join(s.verif, "harness", *cf.id)
	buf, err := os.ReadFile(filepath.Join(s.hdir, "harness.json"))
	if err != nil {
		return nil, err
	}
	if err := json.Unmarshal(buf, &s.h); err != nil {
		return nil, fmt.Errorf("harness.json: %v", err)
	}
	if v := os.Getenv("VERIF_SEED"); v != "" {
		s.seed, _ = strconv.Atoi(v)
	}
	ov, ovPaths, err := buildOverlay(s.verif, s.repo, &s.h, s.hdir)
	if err != nil {
		return nil, err
	}
	s.ovPaths = ovPaths
	var patterns []string
	for _, u := range s.h.Units {
		patterns = append(patterns, "./"+u.Dir)
	}
	tLoad := time.Now()
	prog, _, initial, err := sym.Load(s.repo, ov, patterns, nil)
	if err != nil {
		return s, fmt.Errorf("harness does not load against /repo: %v", err)
	}
	s.prog, s.initial = prog, initial
	s.loadS = time.Since(tLoad).Seconds()
	timeout := 20000
	if s.tier == "thorough" {
		timeout = 120000
	}
	if t, ok := s.h.TimeoutMs[s.tier]; ok {
		timeout = t
	}
	if *cf.solver == "portfolio" {
		s.solver, err = sym.NewPortfolio(timeout)
	} else {
		s.solver, err = sym.NewSolver(*cf.solver, timeout)
	}
	if err != nil {
		return s, err
	}
	s.cfg = sym.Config{Bounds: s.h.Bounds[s.tier], Tier: s.tier, Verbose: *cf.verbose, Trace: *cf.trace}
	if n, ok := s.h.MaxPaths[s.tier]; ok {
		s.cfg.MaxPaths = n
	}
	if n, ok := s.h.MaxSteps[s.tier]; ok {
		s.cfg.MaxSteps = n
	}
	s.m = sym.NewMachine(prog, s.solver, s.cfg)
	s.m.SetNoMerge(*cf.noMerge || s.h.NoMerge)
	for _, p := range s.h.SkipInit {
		s.m.SkipInit(p)
	}
	return s, nil
}

func (s *session) entryFn(u *Unit, e string) (*ssa.Function, error) {
	for _, ip := range s.initial {
		if ip.PkgPath == modPath+"/"+u.Dir {
			sp := s.prog.Package(ip.Types)
			if sp == nil {
				break
			}
			if fn := sp.Func(e); fn != nil {
				return fn, nil
			}
			return nil, fmt.Errorf("entry %s not found in %s", e, u.Dir)
		}
	}
	return nil, fmt.Errorf("package not loaded: %s", u.Dir)
}

func (s *session) unitOfEntry(e string) *Unit {
	for ui := range s.h.Units {
		u := &s.h.Units[ui]
		for _, x := range u.Entries {
			if x == e {
				return u
			}
		}
		for _, x := range u.ThoroughEntries {
			if x == e {
				return u
			}
		}
	}
	return nil
}

// workerOut is what a worker process writes.
type workerOut struct {
	Raw    *sym.Raw
	Stats  *sym.Stats
	Solver sym.SolverStats
	Error  string
}

func cmdWorker(args []string) int {
	fs := flag.NewFlagSet("worker", flag.ExitOnError)
	cf := addCommon(fs)
	entry := fs.String("entry", "", "entry")
	prefixes := fs.String("prefixes", "", "prefix file")
	shard := fs.Int("shard", 0, "shard index")
	of := fs.Int("of", 1, "shard count")
	out := fs.String("out", "", "output file")
	pool := fs.String("pool", "", "shared pool directory for dynamic load balancing")
	fs.Parse(args)
	wo := &workerOut{}
	defer func() {
		b, _ := json.Marshal(wo)
		os.WriteFile(*out, b, 0o644)
	}()
	s, err := open(cf)
	if err != nil {
		wo.Error = err.Error()
		return 2
	}
	defer s.solver.Close()
	u := s.unitOfEntry(*entry)
	if u == nil {
		wo.Error = "no unit for entry " + *entry
		return 2
	}
	fn, err := s.entryFn(u, *entry)
	if err != nil {
		wo.Error = err.Error()
		return 2
	}
	var all [][]int64
	b, err := os.ReadFile(*prefixes)
	if err != nil {
		wo.Error = err.Error()
		return 2
	}
	json.Unmarshal(b, &all)
	var mine [][]int64
	for i, p := range all {
		if i%*of == *shard {
			if p == nil {
				p = []int64{}
			}
			mine = append(mine, p)
		}
	}
	if *pool != "" {
		fsch := newFileSched(*pool, *shard, *of)
		defer fsch.done()
		s.m.Sched = fsch
	}
	if mine == nil {
		mine = [][]int64{}
	}
	wo.Raw = s.m.Explore(fn, mine, 0)
	wo.Stats = s.m.St
	wo.Solver = s.solver.Stats()
	return 0
}

func (s *session) runWorkers(cf *commonFlags, entry string, pending [][]int64, jobs int) ([]*workerOut, error) {
	work := filepath.Join(s.verif, ".work", s.h.Property, "workers")
	os.MkdirAll(work, 0o755)
	pf := filepath.Join(work, entry+".prefixes.json")
	b, _ := json.Marshal(pending)
	if err := os.WriteFile(pf, b, 0o644); err != nil {
		return nil, err
	}
	pool := filepath.Join(work, entry+".pool")
	os.RemoveAll(pool)
	os.MkdirAll(pool, 0o755)
	outs := make([]*workerOut, jobs)
	errs := make([]error, jobs)
	var wg sync.WaitGroup
	self, _ := os.Executable()
	for i := 0; i < jobs; i++ {
		wg.Add(1)
		go func(i int) {
			defer wg.Done()
			of := filepath.Join(work, fmt.Sprintf("%s.out.%d.json", entry, i))
			os.Remove(of)
			args := []string{"worker", "-id", *cf.id, "-tier", s.tier, "-verif", s.verif, "-repo", s.repo, "-solver", *cf.solver,
				"-entry", entry, "-prefixes", pf, "-shard", strconv.Itoa(i), "-of", strconv.Itoa(jobs), "-out", of, "-pool", pool}
			if *cf.noMerge {
				args = append(args, "-nomerge")
			}
			cmd := exec.Command(self, args...)
			cmd.Stderr = os.Stderr
			cmd.Run()
			// whatever happened to the process, it no longer produces work
			os.WriteFile(filepath.Join(pool, fmt.Sprintf("status-%d", i)), []byte("done"), 0o644)
			ob, err := os.ReadFile(of)
			if err != nil {
				errs[i] = fmt.Errorf("worker %d produced no output", i)
				return
			}
			var wo workerOut
			if err := json.Unmarshal(ob, &wo); err != nil {
				errs[i] = err
				return
			}
			if wo.Error != "" {
				errs[i] = fmt.Errorf("worker %d: %s", i, wo.Error)
				return
			}
			outs[i] = &wo
		}(i)
	}
	wg.Wait()
	for _, e := range errs {
		if e != nil {
			return nil, e
		}
	}
	return outs, nil
}

func cmdRun(args []string) int {
	fs := flag.NewFlagSet("run", flag.ExitOnError)
	cf := addCommon(fs)
	only := fs.String("entry", "", "run only this entry")
	noReplay := fs.Bool("noreplay", false, "skip native replay/validation")
	jobsFlag := fs.Int("j", 0, "worker processes (0 = from harness.json / VERIF_JOBS / 8)")
	fs.Parse(args)
	start := time.Now()
	s, err := open(cf)
	if err != nil {
		fmt.Println("ENGINE-ERROR:", err)
		if s != nil {
			writeEvidence(s, nil, time.Since(start).Seconds(), []string{"load error: " + err.Error()}, 0, nil)
		}
		return 2
	}
	defer s.solver.Close()
	h, m, solver := &s.h, s.m, s.solver
	jobs := 8
	if v := os.Getenv("VERIF_JOBS"); v != "" {
		jobs, _ = strconv.Atoi(v)
	}
	if n, ok := h.Jobs[s.tier]; ok {
		jobs = n
	}
	if *jobsFlag > 0 {
		jobs = *jobsFlag
	}
	var results []*sym.EntryResult
	unitOf := map[string]*Unit{}
	var inconclusive []string
	var engineErrors []string
	for ui := range h.Units {
		u := &h.Units[ui]
		entries := append([]string{}, u.Entries...)
		if s.tier == "thorough" {
			entries = append(entries, u.ThoroughEntries...)
		}
		for _, e := range entries {
			if *only != "" && e != *only {
				continue
			}
			fn, err := s.entryFn(u, e)
			if err != nil {
				fmt.Println("ENGINE-ERROR:", err)
				return 2
			}
			unitOf[e] = u
			if len(results) > 0 {
				solver.Reset() // definitions of earlier entries only slow the solver down
			}
			t0 := time.Now()
			splitAt := 0
			if jobs > 1 {
				splitAt = jobs * 6
			}
			raw := m.Explore(fn, nil, splitAt)
			workers := 0
			if len(raw.Pending) > 0 {
				outs, err := s.runWorkers(cf, e, raw.Pending, jobs)
				if err != nil {
					engineErrors = append(engineErrors, err.Error())
				} else {
					for _, wo := range outs {
						sym.MergeRaw(raw, wo.Raw)
						m.St.Merge(wo.Stats)
						solver.AddStats(wo.Solver)
						workers++
					}
				}
			}
			r := m.Finalize(fn, raw, time.Since(t0).Seconds())
			r.Workers = workers
			results = append(results, r)
			fmt.Printf("entry %-40s paths=%-6d ends=%v violations=%d workers=%d %.1fs\n", e, r.Paths, r.PathEnds, len(r.Violations), workers, r.Seconds)
			for _, inc := range r.Inconclusive {
				inconclusive = append(inconclusive, e+": "+inc)
			}
		}
	}
	// ---- native replay of violations, native validation of cover samples
	validated := 0
	if !*noReplay {
		byUnit := map[*Unit][]replayCase{}
		for _, r := range results {
			u := unitOf[r.Entry]
			for _, v := range r.Violations {
				byUnit[u] = append(byUnit[u], replayCase{entry: r.Entry, inputs: v.Inputs, viol: v})
			}
			if !h.NoValidate {
				n := 0
				var labels []string
				for l := range m.CoverSamples(r.Entry) {
					labels = append(labels, l)
				}
				sort.Strings(labels)
				for _, l := range labels {
					if n >= 3 {
						break
					}
					byUnit[u] = append(byUnit[u], replayCase{entry: r.Entry, inputs: m.CoverSamples(r.Entry)[l], cover: l})
					n++
				}
			}
		}
		for ui := range h.Units {
			u := &h.Units[ui]
			cases := byUnit[u]
			if len(cases) == 0 {
				continue
			}
			outs, err := runNative(s.verif, s.repo, h, u, s.ovPaths, cases, s.cfg.Bounds)
			if err != nil {
				engineErrors = append(engineErrors, "native replay failed: "+err.Error())
				continue
			}
			for i, c := range cases {
				out := outs[i]
				if c.viol != nil {
					c.viol.Obs = out
					switch {
					case c.viol.Kind == "assert" && strings.HasPrefix(out, "assert-failed") && strings.Contains(out, strconv.Quote(c.viol.Label)):
						c.viol.Reproduced = true
					case c.viol.Kind == "panic" && strings.HasPrefix(out, "panic"):
						c.viol.Reproduced = true
					case c.viol.Kind == "alloc" && (strings.HasPrefix(out, "alloc-exceeded") || strings.HasPrefix(out, "panic")):
						c.viol.Reproduced = true
					}
				} else {
					sameAsEngine := false
					if strings.HasPrefix(out, "assert-failed") {
						// the cover's input may also be one on which the engine itself found an assertion to fail
						for _, r := range results {
							if r.Entry != c.entry {
								continue
							}
							for _, v := range r.Violations {
								if v.Kind == "assert" && strings.Contains(out, strconv.Quote(v.Label)) {
									sameAsEngine = true
								}
							}
						}
					}
					if out == "ok" || sameAsEngine {
						validated++
					} else {
						engineErrors = append(engineErrors, fmt.Sprintf("interpreter/native disagreement: entry %s cover %q: engine says the path completes, native run: %s", c.entry, c.cover, truncate(out, 300)))
					}
				}
			}
		}
	}
	// ---- verdict
	knownList := loadKnown(filepath.Join(s.verif, "known_findings.txt"))
	exit := 0
	// the replay directory holds the counterexamples of this run only
	if *only == "" {
		os.RemoveAll(filepath.Join(s.verif, "evidence", "replay", h.Property))
	}
	os.MkdirAll(filepath.Join(s.verif, "evidence", "replay", h.Property), 0o755)
	for _, r := range results {
		for i, v := range r.Violations {
			if *noReplay {
				fmt.Printf("UNREPLAYED-MODEL property=%s key=%s where=%s inputs=%v\n", h.Property, v.Key, v.Where, v.Inputs)
				inconclusive = append(inconclusive, "violation model not replayed: "+v.Key)
				continue
			}
			if !v.Reproduced {
				fmt.Printf("INCONCLUSIVE property=%s model for %s did not reproduce natively (%s) inputs=%v\n", h.Property, v.Key, truncate(v.Obs, 200), v.Inputs)
				inconclusive = append(inconclusive, "model did not reproduce natively: "+v.Key)
				continue
			}
			isKnown := false
			for _, k := range knownList {
				if k.property == h.Property && k.key == v.Key {
					fmt.Printf("KNOWN-FINDING: property=%s %s %s\n", h.Property, v.Key, k.text)
					isKnown = true
				}
			}
			if isKnown {
				continue
			}
			rp := filepath.Join(s.verif, "evidence", "replay", h.Property, fmt.Sprintf("%s-%d.json", r.Entry, i))
			writeReplayFile(rp, h.Property, s.cfg.Bounds, []replayCase{{entry: r.Entry, inputs: v.Inputs, viol: v}})
			v.ReplayFile = rp
			fmt.Printf("VIOLATION property=%s replay=%s\n", h.Property, rp)
			fmt.Printf("  key=%s\n  %s %s: %s at %s\n  inputs: %v\n  native: %s\n", v.Key, v.Kind, r.Entry, v.Label, v.Where, v.Inputs, truncate(v.Obs, 400))
			exit = 1
		}
	}
	for _, e := range engineErrors {
		fmt.Println("ENGINE-ERROR:", e)
	}
	for _, e := range solver.Errors {
		fmt.Println("ENGINE-ERROR: solver:", e)
		inconclusive = append(inconclusive, "solver error: "+e)
	}
	for _, inc := range inconclusive {
		fmt.Println("INCONCLUSIVE:", inc)
	}
	if exit == 0 && (len(inconclusive) > 0 || len(engineErrors) > 0) {
		exit = 2
	}
	extra := map[string]interface{}{"load_s": s.loadS, "engine_errors": engineErrors, "worker_processes": jobs}
	writeEvidence(s, results, time.Since(start).Seconds(), inconclusive, validated, extra)
	fmt.Printf("%s %s: entries=%d paths=%d queries(sat=%d unsat=%d unknown=%d cached=%d fallback=%d) solver=%.1fs merged=%d validated=%d wall=%.1fs exit=%d\n",
		h.Property, s.tier, len(results), m.St.Paths, solver.NSat, solver.NUnsat, solver.NUnknown, solver.NCacheHit, solver.NFallback, solver.Seconds, m.St.Merged, validated, time.Since(start).Seconds(), exit)
	return exit
}

func truncate(s string, n int) string {
	if len(s) > n {
		return s[:n] + "…"
	}
	return s
}

type replayCase struct {
	entry  string
	inputs []map[string]string
	viol   *sym.Violation
	cover  string
}

func writeReplayFile(path, prop string, bounds map[string]int, cases []replayCase) error {
	type val struct {
		Name string `json:"name"`
		Kind string `json:"kind"`
		Val  string `json:"val"`
	}
	type cs struct {
		Entry  string `json:"entry"`
		Inputs []val  `json:"inputs"`
		Expect string `json:"expect"`
	}
	f := struct {
		Property string         `json:"property"`
		Bounds   map[string]int `json:"bounds"`
		Cases    []cs           `json:"cases"`
	}{Property: prop, Bounds: bounds}
	for _, c := range cases {
		x := cs{Entry: c.entry}
		for _, in := range c.inputs {
			x.Inputs = append(x.Inputs, val{in["name"], in["kind"], in["val"]})
		}
		if c.viol != nil {
			x.Expect = c.viol.Kind + ":" + c.viol.Label
		} else {
			x.Expect = "ok (cover " + c.cover + ")"
		}
		f.Cases = append(f.Cases, x)
	}
	b, _ := json.MarshalIndent(f, "", " ")
	return os.WriteFile(path, b, 0o644)
}

// runNative compiles the harness into the real package and runs the cases.
func runNative(verif, repo string, h *Harness, u *Unit, ovPaths map[string]string, cases []replayCase, bounds map[string]int) ([]string, error) {
	work := filepath.Join(verif, ".work", h.Property, strings.ReplaceAll(u.Dir, "/", "_"))
	os.MkdirAll(work, 0o755)
	rf := filepath.Join(work, "cases.json")
	if err := writeReplayFile(rf, h.Property, bounds, cases); err != nil {
		return nil, err
	}
	pkgName, err := packageName(filepath.Join(repo, u.Dir))
	if err != nil {
		return nil, err
	}
	var sb strings.Builder
	fmt.Fprintf(&sb, "package %s\n\nimport (\n\t\"testing\"\n\n\t\"%s/internal/zzverif/vnd\"\n)\n\n", pkgName, modPath)
	sb.WriteString("func TestVerifReplay(t *testing.T) {\n\tvnd.RunReplay(t, map[string]func(){\n")
	all := append(append([]string{}, u.Entries...), u.ThoroughEntries...)
	for _, e := range all {
		fmt.Fprintf(&sb, "\t\t%q: %s,\n", e, e)
	}
	sb.WriteString("\t})\n}\n")
	tf := filepath.Join(work, "zz_verif_replay_test.go")
	if err := os.WriteFile(tf, []byte(sb.String()), 0o644); err != nil {
		return nil, err
	}
	repl := map[string]string{}
	for v, r := range ovPaths {
		repl[v] = r
	}
	repl[filepath.Join(repo, u.Dir, "zz_verif_replay_test.go")] = tf
	ovb, _ := json.Marshal(map[string]interface{}{"Replace": repl})
	ovf := filepath.Join(work, "overlay.json")
	if err := os.WriteFile(ovf, ovb, 0o644); err != nil {
		return nil, err
	}
	cmd := exec.Command("go", "test", "-vet=off", "-count=1", "-run", "^TestVerifReplay$", "-v", "-timeout", "10m", "-overlay", ovf, "./"+u.Dir)
	cmd.Dir = repo
	cmd.Env = append(sym.GoEnv(), "VERIF_REPLAY_FILE="+rf)
	out, _ := cmd.CombinedOutput()
	res := make([]string, len(cases))
	re := regexp.MustCompile(`(?m)^VERIF-RESULT case=(\d+) entry=\S+ outcome=(.*)$`)
	found := 0
	for _, mm := range re.FindAllStringSubmatch(string(out), -1) {
		i, _ := strconv.Atoi(mm[1])
		if i < len(res) {
			res[i] = mm[2]
			found++
		}
	}
	if found < len(cases) {
		if strings.Contains(string(out), "[build failed]") || strings.Contains(string(out), "[setup failed]") {
			return nil, fmt.Errorf("native build failed:\n%s", truncate(string(out), 3000))
		}
		// the process died (fatal error, os.Exit, timeout) in the first case without a result;
		// re-run the remaining cases so each gets its own verdict
		first := -1
		for i := range res {
			if res[i] == "" {
				first = i
				break
			}
		}
		res[first] = "panic msg=\"process died\" out=" + strconv.Quote(truncate(string(out), 1500))
		if first+1 < len(cases) {
			rest, err := runNative(verif, repo, h, u, ovPaths, cases[first+1:], bounds)
			if err != nil {
				return nil, err
			}
			copy(res[first+1:], rest)
		}
	}
	return res, nil
}

func packageName(dir string) (string, error) {
	ents, err := os.ReadDir(dir)
	if err != nil {
		return "", err
	}
	re := regexp.MustCompile(`(?m)^package\s+(\w+)`)
	for _, e := range ents {
		if strings.HasSuffix(e.Name(), ".go") && !strings.HasSuffix(e.Name(), "_test.go") {
			b, err := os.ReadFile(filepath.Join(dir, e.Name()))
			if err != nil {
				continue
			}
			if m := re.FindSubmatch(b); m != nil {
				return string(m[1]), nil
			}
		}
	}
	return "", fmt.Errorf("no package clause found in %s", dir)
}

func cmdReplay(args []string) int {
	fs := flag.NewFlagSet("replay", flag.ExitOnError)
	verif := fs.String("verif", "/verif", "verification root")
	repo := fs.String("repo", repoDefault, "repository root")
	fs.Parse(args)
	if fs.NArg() != 1 {
		fmt.Fprintln(os.Stderr, "usage: symgo replay <file.json>")
		return 2
	}
	buf, err := os.ReadFile(fs.Arg(0))
	if err != nil {
		fmt.Println(err)
		return 2
	}
	var c24 struct {
		Property string            `json:"property"`
		Package  string            `json:"package"`
		Function string            `json:"function"`
		Model    map[string]string `json:"model"`
		Test     string            `json:"test"`
	}
	if json.Unmarshal(buf, &c24) == nil && c24.Test != "" {
		return replayTestSource(*verif, *repo, c24.Package, c24.Test)
	}
	var f struct {
		Property string         `json:"property"`
		Bounds   map[string]int `json:"bounds"`
		Cases    []struct {
			Entry  string              `json:"entry"`
			Inputs []map[string]string `json:"inputs"`
			Expect string              `json:"expect"`
		} `json:"cases"`
	}
	if err := json.Unmarshal(buf, &f); err != nil {
		fmt.Println(err)
		return 2
	}
	hdir := filepath.Join(*verif, "harness", f.Property)
	var h Harness
	hb, err := os.ReadFile(filepath.Join(hdir, "harness.json"))
	if err != nil {
		fmt.Println(err)
		return 2
	}
	json.Unmarshal(hb, &h)
	_, ovPaths, err := buildOverlay(*verif, *repo, &h, hdir)
	if err != nil {
		fmt.Println(err)
		return 2
	}
	code := 0
	for _, c := range f.Cases {
		for ui := range h.Units {
			u := &h.Units[ui]
			has := false
			for _, e := range append(append([]string{}, u.Entries...), u.ThoroughEntries...) {
				if e == c.Entry {
					has = true
				}
			}
			if !has {
				continue
			}
			outs, err := runNative(*verif, *repo, &h, u, ovPaths, []replayCase{{entry: c.Entry, inputs: c.Inputs}}, f.Bounds)
			if err != nil {
				fmt.Println("replay error:", err)
				return 2
			}
			fmt.Printf("entry=%s expect=%s native=%s\n", c.Entry, c.Expect, outs[0])
			if outs[0] != "ok" {
				code = 1
			}
		}
	}
	return code
}
