package main

// intenc: engine 2 — loop-free integer kernels encoded in mathematical-integer SMT
// (the bit-vector back ends do not finish 64-bit multiply/divide identities).
// Every machine operation becomes its exact result plus an overflow obligation;
// truncated division is encoded with quotient/remainder witnesses.

import (
	"bytes"
	"encoding/json"
	"flag"
	"fmt"
	"go/constant"
	"go/token"
	"go/types"
	"math/big"
	"os"
	"os/exec"
	"path/filepath"
	"regexp"
	"sort"
	"strings"
	"time"

	"golang.org/x/tools/go/ssa"

	"verif/engine/sym"
)

var scaleFuncs = map[string]bool{
	"multiplyAndDivide": true, "multiplyAndDivide2": true, "timestampToDuration": true,
	"durationToTimestamp": true, "durationGoToMp4": true, "durationMp4ToGo": true,
}

// spec of each function: result = trunc(num0 * num1 / den) where each is a parameter index or a constant.
type operand struct {
	param int   // -1 → constant
	k     int64 // constant value
}
type scaleSpec struct{ a, b, den operand }

var scaleSpecs = map[string]scaleSpec{
	"multiplyAndDivide":   {operand{0, 0}, operand{1, 0}, operand{2, 0}},
	"multiplyAndDivide2":  {operand{0, 0}, operand{1, 0}, operand{2, 0}},
	"timestampToDuration": {operand{0, 0}, operand{-1, 1e9}, operand{1, 0}},
	"durationToTimestamp": {operand{0, 0}, operand{1, 0}, operand{-1, 1e9}},
	"durationGoToMp4":     {operand{0, 0}, operand{1, 0}, operand{-1, 1e9}},
	"durationMp4ToGo":     {operand{0, 0}, operand{-1, 1e9}, operand{1, 0}},
}

type ienc struct {
	decls  []string // declarations and defining constraints
	obls   []iobl   // overflow / division obligations
	names  map[ssa.Value]string
	n      int
	unsupp string
	ops    int
	divs   map[string][2]string
	// path through a multi-block top-level function (branches become assumptions)
	path     []*ssa.BasicBlock
	pathDesc string
	// slice mode (intexpr): only these instructions of the top-level function are encoded, up to stopAt
	only   map[ssa.Instruction]bool
	stopAt ssa.Value
}

// blockPaths enumerates the acyclic entry-to-return paths of fn (nil if cyclic or too many).
func blockPaths(fn *ssa.Function) [][]*ssa.BasicBlock {
	var out [][]*ssa.BasicBlock
	ok := true
	var walk func(b *ssa.BasicBlock, cur []*ssa.BasicBlock)
	walk = func(b *ssa.BasicBlock, cur []*ssa.BasicBlock) {
		if !ok {
			return
		}
		for _, x := range cur {
			if x == b {
				ok = false
				return
			}
		}
		cur = append(append([]*ssa.BasicBlock{}, cur...), b)
		if len(b.Succs) == 0 {
			out = append(out, cur)
			if len(out) > 64 {
				ok = false
			}
			return
		}
		for _, s := range b.Succs {
			walk(s, cur)
		}
	}
	walk(fn.Blocks[0], nil)
	if !ok {
		return nil
	}
	return out
}

type iobl struct {
	what string
	bad  string // formula that must be unsat under the precondition
}

func typeRange(t types.Type) (lo, hi *big.Int, ok bool) {
	b, isB := t.Underlying().(*types.Basic)
	if !isB || b.Info()&types.IsInteger == 0 {
		return nil, nil, false
	}
	w := 64
	switch b.Kind() {
	case types.Int8, types.Uint8:
		w = 8
	case types.Int16, types.Uint16:
		w = 16
	case types.Int32, types.Uint32:
		w = 32
	}
	one := big.NewInt(1)
	if b.Info()&types.IsUnsigned != 0 {
		return big.NewInt(0), new(big.Int).Sub(new(big.Int).Lsh(one, uint(w)), one), true
	}
	h := new(big.Int).Lsh(one, uint(w-1))
	return new(big.Int).Neg(h), new(big.Int).Sub(h, one), true
}

func smtInt(v *big.Int) string {
	if v.Sign() < 0 {
		return "(- " + new(big.Int).Neg(v).String() + ")"
	}
	return v.String()
}

func outOfRange(x string, t types.Type) string {
	lo, hi, _ := typeRange(t)
	return fmt.Sprintf("(or (< %s %s) (> %s %s))", x, smtInt(lo), x, smtInt(hi))
}

func (e *ienc) fresh(p string) string {
	e.n++
	return fmt.Sprintf("%s%d", p, e.n)
}

func (e *ienc) val(v ssa.Value) string {
	if c, ok := v.(*ssa.Const); ok {
		if c.Value == nil || c.Value.Kind() != constant.Int {
			e.unsupp = "non-integer constant " + c.String()
			return "0"
		}
		bi, _ := new(big.Int).SetString(c.Value.ExactString(), 10)
		return smtInt(bi)
	}
	if n, ok := e.names[v]; ok {
		return n
	}
	e.unsupp = fmt.Sprintf("value %s (%T) not defined", v.Name(), v)
	return "0"
}

// encode walks a single-block function; params are bound to the given SMT names.
func (e *ienc) encode(fn *ssa.Function, args []string, ctx string) string {
	blocks := []*ssa.BasicBlock{fn.Blocks[0]}
	if ctx == "" && e.path != nil {
		blocks = e.path // one acyclic path through the top-level function
	} else if len(fn.Blocks) != 1 {
		e.unsupp = fn.String() + ": callee is not straight-line"
		return "0"
	}
	for i, p := range fn.Params {
		e.names[p] = args[i]
	}
	var instrs []ssa.Instruction
	prevOf := map[ssa.Instruction]*ssa.BasicBlock{}
	nextOf := map[ssa.Instruction]*ssa.BasicBlock{}
	for bi, b := range blocks {
		for _, in := range b.Instrs {
			instrs = append(instrs, in)
			if bi > 0 {
				prevOf[in] = blocks[bi-1]
			}
			if bi+1 < len(blocks) {
				nextOf[in] = blocks[bi+1]
			}
		}
	}
	for _, in := range instrs {
		if ctx == "" && e.only != nil {
			if !e.only[in] {
				continue
			}
		}
		switch in := in.(type) {
		case *ssa.DebugRef, *ssa.Jump:
		case *ssa.Phi:
			for i, p := range in.Block().Preds {
				if p == prevOf[in] {
					e.names[in] = e.val(in.Edges[i])
				}
			}
		case *ssa.If:
			c := e.val(in.Cond)
			if nextOf[in] == in.Block().Succs[0] {
				e.decls = append(e.decls, "(assert "+c+")")
				e.pathDesc += " [" + in.Cond.String() + "]"
			} else {
				e.decls = append(e.decls, "(assert (not "+c+"))")
				e.pathDesc += " [not " + in.Cond.String() + "]"
			}
		case *ssa.BinOp:
			x, y := e.val(in.X), e.val(in.Y)
			r := e.fresh("v")
			e.ops++
			where := fmt.Sprintf("%s%s: %s", ctx, fn.Name(), in.String())
			if cmp, ok := map[token.Token]string{token.LSS: "<", token.LEQ: "<=", token.GTR: ">", token.GEQ: ">=", token.EQL: "="}[in.Op]; ok {
				e.names[in] = fmt.Sprintf("(%s %s %s)", cmp, x, y)
				continue
			}
			if in.Op == token.NEQ {
				e.names[in] = fmt.Sprintf("(not (= %s %s))", x, y)
				continue
			}
			switch in.Op {
			case token.ADD:
				e.decls = append(e.decls, fmt.Sprintf("(define-fun %s () Int (+ %s %s))", r, x, y))
			case token.SUB:
				e.decls = append(e.decls, fmt.Sprintf("(define-fun %s () Int (- %s %s))", r, x, y))
			case token.MUL:
				e.decls = append(e.decls, fmt.Sprintf("(define-fun %s () Int (* %s %s))", r, x, y))
			case token.QUO, token.REM:
				e.obls = append(e.obls, iobl{where + " — division by zero", fmt.Sprintf("(= %s 0)", y)})
				// x/y and x%y of the same operands share one witness pair (the machine computes one division)
				if e.divs == nil {
					e.divs = map[string][2]string{}
				}
				w, have := e.divs[x+" / "+y]
				if !have {
					w = [2]string{e.fresh("q"), e.fresh("r")}
					e.divs[x+" / "+y] = w
					e.decls = append(e.decls,
						fmt.Sprintf("(declare-const %s Int)", w[0]), fmt.Sprintf("(declare-const %s Int)", w[1]),
						fmt.Sprintf("(assert (=> (not (= %s 0)) (and (= %s (+ (* %s %s) %s)) (< (abs %s) (abs %s)) (or (= %s 0) (= (< %s 0) (< %s 0))))))", y, x, w[0], y, w[1], w[1], y, w[1], w[1], x))
				}
				q, rem := w[0], w[1]
				if in.Op == token.QUO {
					e.decls = append(e.decls, fmt.Sprintf("(define-fun %s () Int %s)", r, q))
				} else {
					e.decls = append(e.decls, fmt.Sprintf("(define-fun %s () Int %s)", r, rem))
				}
			default:
				e.unsupp = where + ": operator not supported by intenc"
				return "0"
			}
			e.obls = append(e.obls, iobl{where + " — result overflows " + in.Type().String(), outOfRange(r, in.Type())})
			e.names[in] = r
		case *ssa.Convert:
			x := e.val(in.X)
			if _, _, ok := typeRange(in.Type()); !ok {
				e.unsupp = "conversion to " + in.Type().String()
				return "0"
			}
			// a conversion that changes the value would break exactness: obligation that it fits
			e.obls = append(e.obls, iobl{fmt.Sprintf("%s%s: %s — value does not fit %s", ctx, fn.Name(), in.String(), in.Type()), outOfRange(x, in.Type())})
			e.names[in] = x
		case *ssa.ChangeType:
			e.names[in] = e.val(in.X)
		case *ssa.Call:
			callee := in.Call.StaticCallee()
			if callee == nil || !scaleFuncs[callee.Name()] {
				e.unsupp = "call to " + in.Call.Value.String()
				return "0"
			}
			var as []string
			for _, a := range in.Call.Args {
				as = append(as, e.val(a))
			}
			e.names[in] = e.encode(callee, as, ctx+fn.Name()+" → ")
		case *ssa.Return:
			if len(in.Results) != 1 {
				e.unsupp = "multi-value return"
				return "0"
			}
			return e.val(in.Results[0])
		default:
			e.unsupp = fmt.Sprintf("%s: instruction %T not supported by intenc", fn.Name(), in)
			return "0"
		}
	}
	if ctx == "" && e.stopAt != nil {
		return e.val(e.stopAt)
	}
	e.unsupp = "no return"
	return "0"
}

type regime struct {
	name string
	pre  []string // constraints over p0,p1,p2
}

type z3 struct {
	total float64
	n     int
}

func (z *z3) run(script string, timeout int, solver string) string {
	start := time.Now()
	var cmd *exec.Cmd
	if solver == "cvc5" {
		cmd = exec.Command("cvc5", "--lang=smt2", fmt.Sprintf("--tlimit=%d", timeout*1000), "--produce-models")
	} else {
		cmd = exec.Command(solver, "-in", fmt.Sprintf("-T:%d", timeout))
	}
	cmd.Stdin = strings.NewReader(script)
	out, _ := cmd.CombinedOutput()
	z.total += time.Since(start).Seconds()
	z.n++
	return string(out)
}

type callSite struct {
	pos    string
	callee string
	m, d   string // "free" or constant
}

func cmdIntenc(args []string) int {
	fs := flag.NewFlagSet("intenc", flag.ExitOnError)
	tier := fs.String("tier", "quick", "")
	verif := fs.String("verif", "/verif", "")
	repo := fs.String("repo", repoDefault, "")
	fs.Parse(args)
	start := time.Now()
	const prop = "C24"
	seed := 0
	fmt.Sscan(os.Getenv("VERIF_SEED"), &seed)
	fail := func(msg string) int {
		fmt.Println("ENGINE-ERROR:", msg)
		writeIntencEvidence(*verif, prop, *tier, seed, nil, time.Since(start).Seconds(), []string{msg}, 0, 0)
		return 2
	}
	// 1. find the packages that define a scaling function (regenerated every run)
	re := regexp.MustCompile(`(?m)^func (multiplyAndDivide2?|timestampToDuration|durationToTimestamp|durationGoToMp4|durationMp4ToGo)\(`)
	dirs := map[string]bool{}
	armDirs := map[string]bool{}
	filepath.Walk(filepath.Join(*repo, "internal"), func(p string, info os.FileInfo, err error) error {
		if err != nil || info.IsDir() || !strings.HasSuffix(p, ".go") || strings.HasSuffix(p, "_test.go") {
			return nil
		}
		b, err := os.ReadFile(p)
		if err != nil {
			return nil
		}
		if re.Match(b) {
			rel, _ := filepath.Rel(*repo, filepath.Dir(p))
			if bytes.Contains(b, []byte("//go:build")) && bytes.Contains(b, []byte("arm")) {
				armDirs[rel] = true
			} else {
				dirs[rel] = true
			}
		}
		return nil
	})
	var h Harness
	ov, _, err := buildOverlay(*verif, *repo, &h, "")
	if err != nil {
		return fail(err.Error())
	}
	type defn struct {
		fn  *ssa.Function
		pkg string
	}
	var defs []defn
	var sites []callSite
	var notes []string
	load := func(ds map[string]bool, env []string) error {
		var pats []string
		for d := range ds {
			pats = append(pats, "./"+d)
		}
		sort.Strings(pats)
		if len(pats) == 0 {
			return nil
		}
		prog, pkgs, _, err := sym.Load(*repo, ov, pats, env)
		if err != nil {
			return err
		}
		for _, p := range pkgs {
			if p == nil || !strings.HasPrefix(p.Pkg.Path(), modPath) {
				continue
			}
			rel := strings.TrimPrefix(p.Pkg.Path(), modPath+"/")
			if !ds[rel] {
				continue
			}
			var names []string
			for n := range p.Members {
				names = append(names, n)
			}
			sort.Strings(names)
			for _, n := range names {
				f, ok := p.Members[n].(*ssa.Function)
				if !ok {
					continue
				}
				if scaleFuncs[n] {
					defs = append(defs, defn{f, rel})
				}
			}
			// call sites in every function of the package (including methods and closures)
			var visit func(f *ssa.Function)
			seen := map[*ssa.Function]bool{}
			visit = func(f *ssa.Function) {
				if f == nil || seen[f] {
					return
				}
				seen[f] = true
				for _, b := range f.Blocks {
					for _, in := range b.Instrs {
						c, ok := in.(ssa.CallInstruction)
						if !ok {
							continue
						}
						callee := c.Common().StaticCallee()
						if callee == nil || (callee.Name() != "multiplyAndDivide" && callee.Name() != "multiplyAndDivide2") || callee.Pkg != p {
							continue
						}
						cls := func(v ssa.Value) string {
							if k, ok := v.(*ssa.Const); ok && k.Value != nil {
								return k.Value.ExactString()
							}
							return "free"
						}
						a := c.Common().Args
						sites = append(sites, callSite{prog.Fset.Position(in.Pos()).String(), rel + "." + callee.Name(), cls(a[1]), cls(a[2])})
					}
				}
				for _, af := range f.AnonFuncs {
					visit(af)
				}
			}
			for _, n := range names {
				switch mem := p.Members[n].(type) {
				case *ssa.Function:
					visit(mem)
				case *ssa.Type:
					for _, t := range []types.Type{mem.Type(), types.NewPointer(mem.Type())} {
						ms := prog.MethodSets.MethodSet(t)
						for i := 0; i < ms.Len(); i++ {
							visit(prog.MethodValue(ms.At(i)))
						}
					}
				}
			}
		}
		return nil
	}
	if err := load(dirs, nil); err != nil {
		return fail("load: " + err.Error())
	}
	if err := load(armDirs, []string{"GOARCH=arm64", "CGO_ENABLED=0"}); err != nil {
		notes = append(notes, "arm-only copy not loaded (outside the claim): "+truncate(err.Error(), 200))
	}
	if len(defs) < 10 {
		return fail(fmt.Sprintf("only %d scaling functions found", len(defs)))
	}
	// 2. regimes from call sites
	regimesFor := func(d defn) []regime {
		two32 := "4294967296"
		switch d.fn.Name() {
		case "multiplyAndDivide", "multiplyAndDivide2":
			seen := map[string]bool{}
			var rs []regime
			for _, s := range sites {
				if s.callee != d.pkg+"."+d.fn.Name() {
					continue
				}
				key := s.m + "/" + s.d
				if seen[key] {
					continue
				}
				seen[key] = true
				var pre []string
				switch {
				case s.m != "free" && s.d != "free":
					pre = []string{"(= p1 " + s.m + ")", "(= p2 " + s.d + ")"}
				case s.m != "free":
					pre = []string{"(= p1 " + s.m + ")", "(>= p2 1)", "(<= p2 " + two32 + ")"}
				case s.d != "free":
					pre = []string{"(= p2 " + s.d + ")", "(>= p1 1)", "(<= p1 " + two32 + ")"}
				default:
					pre = []string{"(>= p1 1)", "(<= p1 2147483648)", "(>= p2 1)", "(<= p2 " + two32 + ")"}
				}
				rs = append(rs, regime{"m=" + s.m + " d=" + s.d, pre})
			}
			if len(rs) == 0 {
				rs = append(rs, regime{"no call site: m=1e9 d free", []string{"(= p1 1000000000)", "(>= p2 1)", "(<= p2 " + two32 + ")"}})
			}
			return rs
		default:
			return []regime{{"rate in [1,2^32]", []string{"(>= p1 1)", "(<= p1 " + two32 + ")"}}}
		}
	}
	// 3. queries
	timeout := 30
	if *tier == "thorough" {
		timeout = 120
	}
	var zz z3
	type viol struct {
		def   defn
		reg   regime
		what  string
		model map[string]string
	}
	var viols []viol
	var inconc []string
	nObl, nDis := 0, 0
	var samples []interface{}
	var encoded []string
	for _, d := range defs {
		encoded = append(encoded, d.pkg+"."+d.fn.Name())
		paths := blockPaths(d.fn)
		if paths == nil {
			inconc = append(inconc, d.pkg+"."+d.fn.Name()+": control flow is cyclic or has more than 64 paths")
			continue
		}
		for _, rg := range regimesFor(d) {
			for _, bp := range paths {
				e := &ienc{names: map[ssa.Value]string{}, path: bp}
				var params []string
				var pre []string
				for i, p := range d.fn.Params {
					n := fmt.Sprintf("p%d", i)
					params = append(params, n)
					lo, hi, ok := typeRange(p.Type())
					if !ok {
						e.unsupp = "parameter type " + p.Type().String()
						break
					}
					pre = append(pre, fmt.Sprintf("(declare-const %s Int)", n), fmt.Sprintf("(assert (and (>= %s %s) (<= %s %s)))", n, smtInt(lo), n, smtInt(hi)))
				}
				res := "0"
				if e.unsupp == "" {
					res = e.encode(d.fn, params, "")
				}
				if e.unsupp != "" {
					inconc = append(inconc, d.pkg+"."+d.fn.Name()+": "+e.unsupp)
					continue
				}
				sp := scaleSpecs[d.fn.Name()]
				opnd := func(o operand) string {
					if o.param < 0 {
						return fmt.Sprint(o.k)
					}
					return fmt.Sprintf("p%d", o.param)
				}
				var sb strings.Builder
				sb.WriteString("(set-logic ALL)\n(set-option :produce-models true)\n")
				for _, l := range pre {
					sb.WriteString(l + "\n")
				}
				for _, c := range rg.pre {
					sb.WriteString("(assert " + c + ")\n")
				}
				// exact quotient Q, remainder R of a*b/den; precondition: Q representable
				fmt.Fprintf(&sb, "(declare-const Q Int)\n(declare-const R Int)\n(define-fun N () Int (* %s %s))\n(define-fun D () Int %s)\n", opnd(sp.a), opnd(sp.b), opnd(sp.den))
				sb.WriteString("(assert (and (= N (+ (* Q D) R)) (< (abs R) (abs D)) (or (= R 0) (= (< R 0) (< N 0)))))\n")
				_, rhi, _ := typeRange(d.fn.Signature.Results().At(0).Type())
				rlo := new(big.Int).Neg(new(big.Int).Add(rhi, big.NewInt(1)))
				fmt.Fprintf(&sb, "(assert (and (>= Q %s) (<= Q %s)))\n", smtInt(rlo), smtInt(rhi))
				for _, l := range e.decls {
					sb.WriteString(l + "\n")
				}
				base := sb.String()
				check := func(what, bad string, prior []string) {
					nObl++
					var q strings.Builder
					q.WriteString(base)
					for _, p := range prior {
						q.WriteString("(assert (not " + p + "))\n")
					}
					q.WriteString("(assert " + bad + ")\n(check-sat)\n(get-value (" + strings.Join(params, " ") + "))\n")
					var out string
					for _, solver := range []string{"z3-new", "/usr/bin/z3", "cvc5"} {
						out = zz.run(q.String(), timeout, solver)
						if strings.HasPrefix(out, "sat") || strings.HasPrefix(out, "unsat") {
							break
						}
					}
					if os.Getenv("SYMGO_V") != "" {
						fmt.Fprintf(os.Stderr, "%s.%s [%s] %s → %s (%.1fs total)\n", d.pkg, d.fn.Name(), rg.name, what, truncate(strings.TrimSpace(out), 20), zz.total)
					}
					switch {
					case strings.HasPrefix(out, "unsat"):
						nDis++
					case strings.HasPrefix(out, "sat"):
						model := map[string]string{}
						mre := regexp.MustCompile(`\((p\d)\s+(\(-\s*\d+\)|\d+)\)`)
						for _, mm := range mre.FindAllStringSubmatch(out, -1) {
							v := strings.NewReplacer("(", "", ")", "", " ", "").Replace(mm[2])
							model[mm[1]] = v
						}
						viols = append(viols, viol{d, rg, what, model})
					default:
						inconc = append(inconc, fmt.Sprintf("%s.%s [%s] %s: solver answered %q", d.pkg, d.fn.Name(), rg.name, what, truncate(strings.TrimSpace(out), 80)))
					}
				}
				var prior []string
				for _, o := range e.obls {
					check(o.what, o.bad, prior)
					prior = append(prior, o.bad)
				}
				check("result differs from trunc(a·b/den)", fmt.Sprintf("(not (= %s Q))", res), prior)
				if len(samples) < 4 {
					samples = append(samples, map[string]interface{}{"function": d.pkg + "." + d.fn.Name(), "regime": rg.name, "obligations": len(e.obls) + 1, "machine_ops": e.ops})
				}
			}
		}
	}
	// 4. replay each model natively (real function vs math/big)
	exit := 0
	nviol := 0
	seenKey := map[string]bool{}
	pendingInconc := map[string]string{}
	knownList := loadKnown(filepath.Join(*verif, "known_findings.txt"))
	for i, v := range viols {
		key := v.def.pkg + "." + v.def.fn.Name() + "/" + strings.ReplaceAll(v.reg.name, " ", "_")
		if seenKey[key] {
			continue
		}
		ok, obs, rp := replayScale(*verif, *repo, v.def.pkg, v.def.fn, v.model, i)
		if !ok {
			// another obligation of the same function and regime may have a model that does reproduce
			pendingInconc[key] = fmt.Sprintf("model for %s (%s) did not reproduce natively: %s", key, v.what, truncate(obs, 200))
			continue
		}
		seenKey[key] = true
		delete(pendingInconc, key)
		isKnown := false
		for _, k := range knownList {
			if k.property == prop && k.key == key {
				fmt.Printf("KNOWN-FINDING: property=%s %s %s\n", prop, key, k.text)
				isKnown = true
			}
		}
		if isKnown {
			continue
		}
		fmt.Printf("VIOLATION property=%s replay=%s\n  key=%s\n  %s\n  model %v\n  native: %s\n", prop, rp, key, v.what, v.model, truncate(obs, 300))
		nviol++
		exit = 1
	}
	for k, msg := range pendingInconc {
		if !seenKey[k] {
			inconc = append(inconc, msg)
		}
	}
	for _, n := range notes {
		fmt.Println("NOTE:", n)
	}
	for _, inc := range inconc {
		fmt.Println("INCONCLUSIVE:", inc)
	}
	if exit == 0 && len(inconc) > 0 {
		exit = 2
	}
	var siteStr []string
	for _, s := range sites {
		siteStr = append(siteStr, fmt.Sprintf("%s %s(m=%s, d=%s)", strings.TrimPrefix(s.pos, *repo+"/"), s.callee, s.m, s.d))
	}
	extra := map[string]interface{}{"functions_encoded": encoded, "call_sites": siteStr, "notes": notes, "samples": samples,
		"solver_s": zz.total, "solver_runs": zz.n}
	writeIntencEvidence(*verif, prop, *tier, seed, extra, time.Since(start).Seconds(), inconc, nObl, nDis)
	fmt.Printf("C24 %s: definitions=%d call_sites=%d obligations=%d discharged=%d violations=%d solver=%.1fs wall=%.1fs exit=%d\n",
		*tier, len(defs), len(sites), nObl, nDis, nviol, zz.total, time.Since(start).Seconds(), exit)
	return exit
}

// replayScale runs the real function on the model and compares with math/big.
func replayScale(verif, repo, pkgRel string, fn *ssa.Function, model map[string]string, idx int) (bool, string, string) {
	work := filepath.Join(verif, ".work", "C24", fmt.Sprintf("replay%d", idx))
	os.MkdirAll(work, 0o755)
	pkgName, err := packageName(filepath.Join(repo, pkgRel))
	if err != nil {
		return false, err.Error(), ""
	}
	sp := scaleSpecs[fn.Name()]
	var args []string
	for i, p := range fn.Params {
		v := model[fmt.Sprintf("p%d", i)]
		if v == "" {
			v = "0"
		}
		args = append(args, fmt.Sprintf("%s(%s)", types.TypeString(p.Type(), func(pk *types.Package) string { return pk.Name() }), v))
	}
	opnd := func(o operand) string {
		if o.param < 0 {
			return fmt.Sprintf("big.NewInt(%d)", o.k)
		}
		return fmt.Sprintf("big.NewInt(int64(a%d))", o.param)
	}
	var sb strings.Builder
	extraImports := ""
	for _, a := range args {
		if strings.Contains(a, "time.") && !strings.Contains(extraImports, "time") {
			extraImports += "\t\"time\"\n"
		}
	}
	fmt.Fprintf(&sb, "package %s\n\nimport (\n\t\"fmt\"\n\t\"math/big\"\n\t\"testing\"\n%s)\n\n", pkgName, extraImports)
	sb.WriteString("func TestVerifC24Replay(t *testing.T) {\n")
	for i, a := range args {
		fmt.Fprintf(&sb, "\ta%d := %s\n", i, a)
	}
	var call []string
	for i := range args {
		call = append(call, fmt.Sprintf("a%d", i))
	}
	fmt.Fprintf(&sb, "\tgot := int64(%s(%s))\n", fn.Name(), strings.Join(call, ", "))
	fmt.Fprintf(&sb, "\tn := new(big.Int).Mul(%s, %s)\n\twant := new(big.Int).Quo(n, %s)\n", opnd(sp.a), opnd(sp.b), opnd(sp.den))
	sb.WriteString("\tif !want.IsInt64() { fmt.Println(\"VERIF-C24 unrepresentable\"); return }\n")
	sb.WriteString("\tif want.Int64() != got { fmt.Printf(\"VERIF-C24 MISMATCH got=%d want=%s\\n\", got, want) } else { fmt.Println(\"VERIF-C24 equal\") }\n}\n")
	tf := filepath.Join(work, "zz_verif_c24_replay_test.go")
	os.WriteFile(tf, []byte(sb.String()), 0o644)
	repl := map[string]string{filepath.Join(repo, pkgRel, "zz_verif_c24_replay_test.go"): tf}
	for _, e := range []string{"internal/core/VERSION", "internal/servers/hls/hls.min.js"} {
		if _, err := os.Stat(filepath.Join(repo, e)); err != nil {
			repl[filepath.Join(repo, e)] = filepath.Join(verif, "embed", filepath.Base(e))
		}
	}
	ovb, _ := json.Marshal(map[string]interface{}{"Replace": repl})
	ovf := filepath.Join(work, "overlay.json")
	os.WriteFile(ovf, ovb, 0o644)
	cmd := exec.Command("go", "test", "-vet=off", "-count=1", "-run", "^TestVerifC24Replay$", "-v", "-overlay", ovf, "./"+pkgRel)
	cmd.Dir = repo
	cmd.Env = sym.GoEnv()
	out, _ := cmd.CombinedOutput()
	rp := filepath.Join(verif, "evidence", "replay", "C24", fmt.Sprintf("%s-%s-%d.json", strings.ReplaceAll(pkgRel, "/", "_"), fn.Name(), idx))
	os.MkdirAll(filepath.Dir(rp), 0o755)
	b, _ := json.MarshalIndent(map[string]interface{}{"property": "C24", "package": pkgRel, "function": fn.Name(), "model": model, "test": sb.String()}, "", " ")
	os.WriteFile(rp, b, 0o644)
	s := string(out)
	if i := strings.Index(s, "VERIF-C24 MISMATCH"); i >= 0 {
		return true, strings.SplitN(s[i:], "\n", 2)[0], rp
	}
	if strings.Contains(s, "panic:") {
		return true, "panic: " + truncate(s[strings.Index(s, "panic:"):], 200), rp
	}
	return false, truncate(s, 300), rp
}

func writeIntencEvidence(verif, prop, tier string, seed int, extra map[string]interface{}, wall float64, inconc []string, nObl, nDis int) {
	cov := map[string]interface{}{
		"states": nObl, "transitions": nDis, "traces_validated_against_impl": 0,
		"obligations": nObl, "discharged": nDis, "inconclusive": inconc,
		"explanation": "loop-free integer kernels lowered from go/ssa into mathematical-integer SMT: one overflow obligation per machine operation (justifying the drop of wrap-around) plus the functional obligation result = trunc(a·b/den); states = obligations, transitions = obligations discharged (unsat)",
		"bounds":      "none on v (full int64 with representable exact result); clock rates/time scales in [1, 2^32]; call sites with two variable operands: multiplier ≤ 2^31",
	}
	if s, ok := extra["samples"]; ok && s != nil {
		cov["samples"] = s
	} else {
		cov["samples"] = []interface{}{"none"}
	}
	for k, v := range extra {
		cov[k] = v
	}
	if nObl == 0 {
		cov["states"], cov["transitions"] = 0, 0
	}
	ev := map[string]interface{}{
		"property_id": prop, "tier": tier, "seed": seed, "level": "model_checking", "coverage": cov,
		"assumptions": []string{"clock rates and time scales lie in [1, 2^32]", "the exact quotient is representable in the result type (property precondition)",
			"where both multiplier and divisor are variables at a call site the multiplier is at most 2^31"},
		"wall_s": wall, "violations": 0,
	}
	b, _ := json.MarshalIndent(ev, "", " ")
	os.MkdirAll(filepath.Join(verif, "evidence"), 0o755)
	os.WriteFile(filepath.Join(verif, "evidence", prop+".json"), b, 0o644)
}
