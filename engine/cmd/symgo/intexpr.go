package main

// intexpr: the second engine (intenc) applied to one expression inside a larger function — the
// duration that (*ntpestimator.Estimator).Estimate adds to its reference (C25, third clause).
// The backward slice of the argument of time.Time.Add is encoded in mathematical-integer SMT:
// every machine operation carries an overflow obligation, and the result must equal
// trunc((pts - refPTS) * 1e9 / ClockRate) whenever that value is representable.

import (
	"encoding/json"
	"flag"
	"fmt"
	"go/types"
	"math/big"
	"os"
	"os/exec"
	"path/filepath"
	"regexp"
	"strings"
	"time"

	"golang.org/x/tools/go/ssa"

	"verif/engine/sym"
)

func cmdIntexpr(args []string) int {
	fs := flag.NewFlagSet("intexpr", flag.ExitOnError)
	tier := fs.String("tier", "quick", "")
	verif := fs.String("verif", "/verif", "")
	repo := fs.String("repo", repoDefault, "")
	fs.Parse(args)
	start := time.Now()
	const prop = "C25"
	const pkgRel = "internal/ntpestimator"
	var inconc []string
	result := map[string]interface{}{}
	finish := func(exit int) int {
		result["inconclusive"] = inconc
		result["wall_s"] = time.Since(start).Seconds()
		mergeIntexprEvidence(*verif, prop, result)
		return exit
	}
	fail := func(msg string) int {
		fmt.Println("ENGINE-ERROR:", msg)
		inconc = append(inconc, msg)
		return finish(2)
	}
	var h Harness
	ov, _, err := buildOverlay(*verif, *repo, &h, "")
	if err != nil {
		return fail(err.Error())
	}
	prog, pkgs, _, err := sym.Load(*repo, ov, []string{"./" + pkgRel}, nil)
	if err != nil {
		return fail("load: " + err.Error())
	}
	var est *ssa.Function
	for _, p := range pkgs {
		if p == nil || p.Pkg.Path() != modPath+"/"+pkgRel {
			continue
		}
		if t, ok := p.Members["Estimator"].(*ssa.Type); ok {
			ms := prog.MethodSets.MethodSet(types.NewPointer(t.Type()))
			for i := 0; i < ms.Len(); i++ {
				if ms.At(i).Obj().Name() == "Estimate" {
					est = prog.MethodValue(ms.At(i))
				}
			}
		}
	}
	if est == nil {
		return fail("(*Estimator).Estimate not found")
	}
	// the duration added to the reference: the argument of the (only) call of time.Time.Add
	var dur ssa.Value
	var durBlock *ssa.BasicBlock
	nAdd := 0
	for _, b := range est.Blocks {
		for _, in := range b.Instrs {
			c, ok := in.(*ssa.Call)
			if !ok {
				continue
			}
			callee := c.Call.StaticCallee()
			if callee != nil && callee.String() == "(time.Time).Add" {
				nAdd++
				if _, isConst := c.Call.Args[1].(*ssa.Const); !isConst {
					dur = c.Call.Args[1]
					durBlock = b
				}
			}
		}
	}
	if dur == nil {
		return fail(fmt.Sprintf("no variable duration added to a time in Estimate (%d calls of Time.Add)", nAdd))
	}
	// backward slice of dur
	only := map[ssa.Instruction]bool{}
	leaves := map[ssa.Value]string{}
	var leafOrder []ssa.Value
	var unsupp string
	var visit func(v ssa.Value)
	visit = func(v ssa.Value) {
		switch v := v.(type) {
		case *ssa.Const:
		case *ssa.Parameter:
			if _, ok := leaves[v]; !ok {
				leaves[v] = v.Name()
				leafOrder = append(leafOrder, v)
			}
		case *ssa.UnOp: // load of a field
			if fa, ok := v.X.(*ssa.FieldAddr); ok {
				if _, seen := leaves[v]; !seen {
					st := fa.X.Type().Underlying().(*types.Pointer).Elem().Underlying().(*types.Struct)
					leaves[v] = st.Field(fa.Field).Name()
					leafOrder = append(leafOrder, v)
				}
				return
			}
			unsupp = "unary operation " + v.String()
		case *ssa.BinOp:
			if only[v] {
				return
			}
			only[v] = true
			visit(v.X)
			visit(v.Y)
		case *ssa.Convert:
			only[v] = true
			visit(v.X)
		case *ssa.ChangeType:
			only[v] = true
			visit(v.X)
		case *ssa.Call:
			only[v] = true
			for _, a := range v.Call.Args {
				visit(a)
			}
		default:
			unsupp = fmt.Sprintf("value %s (%T) in the slice", v.Name(), v)
		}
	}
	visit(dur)
	if unsupp != "" {
		return fail("slice of the added duration: " + unsupp)
	}
	var pts, refPTS, rate ssa.Value
	for v, n := range leaves {
		switch n {
		case "pts":
			pts = v
		case "refPTS":
			refPTS = v
		case "ClockRate":
			rate = v
		default:
			return fail("unexpected input of the added duration: " + n)
		}
	}
	if pts == nil || refPTS == nil || rate == nil {
		return fail("the added duration does not depend on pts, refPTS and ClockRate")
	}
	// a path from the entry to the block of the duration (the slice has no phi: any path will do)
	var path []*ssa.BasicBlock
	var find func(b *ssa.BasicBlock, cur []*ssa.BasicBlock) bool
	seenB := map[*ssa.BasicBlock]bool{}
	find = func(b *ssa.BasicBlock, cur []*ssa.BasicBlock) bool {
		if seenB[b] {
			return false
		}
		seenB[b] = true
		cur = append(cur, b)
		if b == durBlock {
			path = append([]*ssa.BasicBlock{}, cur...)
			return true
		}
		for _, s := range b.Succs {
			if find(s, cur) {
				return true
			}
		}
		return false
	}
	if !find(est.Blocks[0], nil) {
		return fail("block of the added duration not reachable")
	}
	rates := []int64{1, 1000, 8000, 44100, 48000, 90000}
	if *tier == "thorough" {
		rates = append(rates, 2, 3, 7, 16000, 22050, 27000000, 1000000000, 4294967296)
	}
	timeout := 30
	if *tier == "thorough" {
		timeout = 120
	}
	var zz z3
	nObl, nDis, nviol := 0, 0, 0
	exit := 0
	knownList := loadKnown(filepath.Join(*verif, "known_findings.txt"))
	var sliceDesc []string
	for in := range only {
		sliceDesc = append(sliceDesc, in.(ssa.Value).Name()+" = "+in.String())
	}
	for _, r := range rates {
		e := &ienc{names: map[ssa.Value]string{}, path: path, only: only, stopAt: dur}
		e.names[pts], e.names[refPTS], e.names[rate] = "pts", "refPTS", "rate"
		var pargs []string
		for _, p := range est.Params {
			if ssa.Value(p) == pts {
				pargs = append(pargs, "pts")
			} else {
				pargs = append(pargs, "unused_"+p.Name())
			}
		}
		res := e.encode(est, pargs, "")
		if e.unsupp != "" {
			inconc = append(inconc, "added duration: "+e.unsupp)
			continue
		}
		var sb strings.Builder
		sb.WriteString("(set-logic ALL)\n(set-option :produce-models true)\n(declare-const pts Int)\n(declare-const refPTS Int)\n(declare-const rate Int)\n")
		two62 := new(big.Int).Lsh(big.NewInt(1), 61).String() // |pts - refPTS| <= 2^62: the subtraction cannot wrap
		fmt.Fprintf(&sb, "(assert (and (>= pts (- %s)) (<= pts %s) (>= refPTS (- %s)) (<= refPTS %s)))\n(assert (= rate %d))\n", two62, two62, two62, two62, r)
		sb.WriteString("(declare-const Q Int)\n(declare-const R Int)\n(define-fun N () Int (* (- pts refPTS) 1000000000))\n(define-fun D () Int rate)\n")
		sb.WriteString("(assert (and (= N (+ (* Q D) R)) (< (abs R) (abs D)) (or (= R 0) (= (< R 0) (< N 0)))))\n")
		sb.WriteString("(assert (and (>= Q (- 9223372036854775808)) (<= Q 9223372036854775807)))\n")
		for _, l := range e.decls {
			sb.WriteString(l + "\n")
		}
		base := sb.String()
		var prior []string
		check := func(what, bad string) {
			nObl++
			var q strings.Builder
			q.WriteString(base)
			for _, p := range prior {
				q.WriteString("(assert (not " + p + "))\n")
			}
			q.WriteString("(assert " + bad + ")\n(check-sat)\n(get-value (pts refPTS rate))\n")
			var out string
			for _, solver := range []string{"z3-new", "/usr/bin/z3", "cvc5"} {
				out = zz.run(q.String(), timeout, solver)
				if strings.HasPrefix(out, "sat") || strings.HasPrefix(out, "unsat") {
					break
				}
			}
			if strings.Contains(strings.ReplaceAll(out, "model is not available", ""), "(error \"") && !strings.HasPrefix(out, "sat") && strings.Count(out, "(error") > strings.Count(out, "model is not available") {
				inconc = append(inconc, fmt.Sprintf("rate %d, %s: solver error %q", r, what, truncate(out, 120)))
				return
			}
			switch {
			case strings.HasPrefix(out, "unsat"):
				nDis++
			case strings.HasPrefix(out, "sat"):
				model := map[string]string{}
				mre := regexp.MustCompile(`\((pts|refPTS|rate)\s+(\(-\s*\d+\)|\d+)\)`)
				for _, mm := range mre.FindAllStringSubmatch(out, -1) {
					model[mm[1]] = strings.NewReplacer("(", "", ")", "", " ", "").Replace(mm[2])
				}
				key := fmt.Sprintf("Estimate/added-duration/rate=%d", r)
				ok, obs, rp := replayEstimate(*verif, *repo, pkgRel, model, nviol)
				if !ok {
					inconc = append(inconc, fmt.Sprintf("model for %s (%s) did not reproduce natively: %s", key, what, truncate(obs, 200)))
					return
				}
				for _, k := range knownList {
					if k.property == prop && k.key == key {
						fmt.Printf("KNOWN-FINDING: property=%s %s %s\n", prop, key, k.text)
						return
					}
				}
				fmt.Printf("VIOLATION property=%s replay=%s\n  key=%s\n  %s\n  model %v\n  native: %s\n", prop, rp, key, what, model, truncate(obs, 300))
				nviol++
				exit = 1
			default:
				inconc = append(inconc, fmt.Sprintf("rate %d, %s: solver answered %q", r, what, truncate(strings.TrimSpace(out), 80)))
			}
		}
		for _, o := range e.obls {
			if exit == 1 {
				break
			}
			check(o.what, o.bad)
			prior = append(prior, o.bad)
		}
		if exit != 1 {
			check("the duration added to the reference differs from trunc((pts-refPTS)·1e9/ClockRate)", fmt.Sprintf("(not (= %s Q))", res))
		}
	}
	for _, inc := range inconc {
		fmt.Println("INCONCLUSIVE:", inc)
	}
	if exit == 0 && len(inconc) > 0 {
		exit = 2
	}
	result["function"] = "(*" + pkgRel + ".Estimator).Estimate: argument of time.Time.Add"
	result["slice"] = sliceDesc
	result["clock_rates"] = rates
	result["obligations"] = nObl
	result["discharged"] = nDis
	result["solver_s"] = zz.total
	result["solver_runs"] = zz.n
	result["bounds"] = "pts, refPTS in [-2^61, 2^61]; exact result representable in int64 (precondition); clock rates as listed"
	result["claim"] = "every machine operation of the added duration is overflow-free and the duration equals trunc((pts-refPTS)·1e9/ClockRate): while the reference is kept, absolute timestamps differ by the frame timestamp difference (up to the truncation below 1 ns for rates that do not divide 1e9)"
	fmt.Printf("C25 step clause %s: rates=%d obligations=%d discharged=%d violations=%d solver=%.1fs wall=%.1fs exit=%d\n",
		*tier, len(rates), nObl, nDis, nviol, zz.total, time.Since(start).Seconds(), exit)
	return finish(exit)
}

// replayEstimate runs the real Estimate twice (reference, then the model's timestamp with the wall clock
// one second after the exact answer) and compares with math/big.
func replayEstimate(verif, repo, pkgRel string, model map[string]string, idx int) (bool, string, string) {
	work := filepath.Join(verif, ".work", "C25", fmt.Sprintf("replay%d", idx))
	os.MkdirAll(work, 0o755)
	get := func(k string) string {
		if v := model[k]; v != "" {
			return v
		}
		return "0"
	}
	var sb strings.Builder
	sb.WriteString("package ntpestimator\n\nimport (\n\t\"fmt\"\n\t\"math/big\"\n\t\"testing\"\n\t\"time\"\n)\n\n")
	sb.WriteString("func TestVerifC25Replay(t *testing.T) {\n")
	fmt.Fprintf(&sb, "\tpts, refPTS, rate := int64(%s), int64(%s), int64(%s)\n", get("pts"), get("refPTS"), get("rate"))
	sb.WriteString(`	n := new(big.Int).Mul(new(big.Int).Sub(big.NewInt(pts), big.NewInt(refPTS)), big.NewInt(1000000000))
	want := new(big.Int).Quo(n, big.NewInt(rate))
	if !want.IsInt64() {
		fmt.Println("VERIF-C25 unrepresentable")
		return
	}
	base := time.Unix(1<<31, 0)
	exact := base.Add(time.Duration(want.Int64()))
	now := base
	timeNow = func() time.Time { return now }
	defer func() { timeNow = time.Now }()
	e := &Estimator{ClockRate: int(rate)}
	e.Estimate(refPTS)
	now = exact.Add(time.Second) // a steady clock, one second of lag
	got := e.Estimate(pts)
	if !got.Equal(exact) {
		fmt.Printf("VERIF-C25 MISMATCH got=%v want=%v (reference %v, ticks %d at %d Hz)\n", got.UTC(), exact.UTC(), base.UTC(), pts-refPTS, rate)
	} else {
		fmt.Println("VERIF-C25 equal")
	}
}
`)
	tf := filepath.Join(work, "zz_verif_c24_replay_test.go")
	os.WriteFile(tf, []byte(sb.String()), 0o644)
	repl := map[string]string{filepath.Join(repo, pkgRel, "zz_verif_c24_replay_test.go"): tf}
	ovb, _ := json.Marshal(map[string]interface{}{"Replace": repl})
	ovf := filepath.Join(work, "overlay.json")
	os.WriteFile(ovf, ovb, 0o644)
	cmd := exec.Command("go", "test", "-vet=off", "-count=1", "-run", "^TestVerifC25Replay$", "-v", "-overlay", ovf, "./"+pkgRel)
	cmd.Dir = repo
	cmd.Env = sym.GoEnv()
	out, _ := cmd.CombinedOutput()
	rp := filepath.Join(verif, "evidence", "replay", "C25", fmt.Sprintf("Estimate-added-duration-%d.json", idx))
	os.MkdirAll(filepath.Dir(rp), 0o755)
	b, _ := json.MarshalIndent(map[string]interface{}{"property": "C25", "package": pkgRel, "function": "Estimate", "model": model, "test": sb.String()}, "", " ")
	os.WriteFile(rp, b, 0o644)
	s := string(out)
	if i := strings.Index(s, "VERIF-C25 MISMATCH"); i >= 0 {
		return true, strings.SplitN(s[i:], "\n", 2)[0], rp
	}
	if strings.Contains(s, "panic:") {
		return true, "panic: " + truncate(s[strings.Index(s, "panic:"):], 200), rp
	}
	return false, truncate(s, 300), rp
}

// mergeIntexprEvidence adds the second engine's result to the evidence file written by the first.
func mergeIntexprEvidence(verif, prop string, result map[string]interface{}) {
	p := filepath.Join(verif, "evidence", prop+".json")
	var ev map[string]interface{}
	if b, err := os.ReadFile(p); err == nil {
		json.Unmarshal(b, &ev)
	}
	if ev == nil {
		return
	}
	cov, _ := ev["coverage"].(map[string]interface{})
	if cov == nil {
		cov = map[string]interface{}{}
		ev["coverage"] = cov
	}
	cov["step_clause_integer_encoding"] = result
	if w, ok := ev["wall_s"].(float64); ok {
		if w2, ok := result["wall_s"].(float64); ok {
			ev["wall_s"] = w + w2
		}
	}
	b, _ := json.MarshalIndent(ev, "", " ")
	os.WriteFile(p, b, 0o644)
}
