package sym

import (
	"fmt"
	"os"
	"sort"
	"strings"
	"time"

	"golang.org/x/tools/go/ssa"
)

// EntryResult summarises the exploration of one harness entry.
type EntryResult struct {
	Entry        string            `json:"entry"`
	Paths        int               `json:"paths"`
	PathEnds     map[string]int    `json:"path_ends"`
	Inconclusive []string          `json:"inconclusive,omitempty"`
	Violations   []*Violation      `json:"violations,omitempty"`
	Covers       map[string]bool   `json:"covers"`
	Asserts      map[string]int    `json:"asserts"`
	Seconds      float64           `json:"seconds"`
	Bounds       map[string]int    `json:"bounds,omitempty"`
	Notes        []string          `json:"notes,omitempty"`
	MaxAlloc     int               `json:"max_alloc"`
	Sample       map[string]string `json:"sample,omitempty"`
	Workers      int               `json:"workers,omitempty"`
}

// Raw is the mergeable outcome of exploring (part of) an entry.
type Raw struct {
	Entry      string
	Paths      int
	PathEnds   map[string]int
	Inconc     map[string]int
	AssertSeen map[string]int
	CoverHit   map[string][]map[string]string
	Violations []*Violation
	Bounds     map[string]int
	MaxAlloc   int
	Pending    [][]int64 // unexplored prefixes (split mode)
	Seconds    float64
	// statistics deltas
	St     *Stats
	Solver SolverStats
}

// Scheduler shares pending prefixes between worker processes.
type Scheduler interface {
	// Yield may take prefixes away from the front (oldest, shallowest) of work.
	Yield(work *[][]int64)
	// Idle blocks until work is available (returned) or all workers are done (nil).
	Idle() [][]int64
}

// SolverStats are the solver counters of a run.
type SolverStats struct {
	NSat, NUnsat, NUnknown, NCacheHit, NFallback int
	Seconds                                      float64
	Errors                                       []string
}

// SolverStats returns the counters of the solver.
func (s *Solver) Stats() SolverStats {
	return SolverStats{s.NSat, s.NUnsat, s.NUnknown, s.NCacheHit, s.NFallback, s.Seconds, s.Errors}
}

// AddStats merges counters of a worker into this solver's counters.
func (s *Solver) AddStats(o SolverStats) {
	s.NSat += o.NSat
	s.NUnsat += o.NUnsat
	s.NUnknown += o.NUnknown
	s.NCacheHit += o.NCacheHit
	s.NFallback += o.NFallback
	s.Seconds += o.Seconds
	s.Errors = append(s.Errors, o.Errors...)
}

// Merge adds the counters of o into st.
func (st *Stats) Merge(o *Stats) {
	if o == nil {
		return
	}
	st.Paths += o.Paths
	st.Decisions += o.Decisions
	st.Merged += o.Merged
	st.MergeFail += o.MergeFail
	st.Steps += o.Steps
	st.AssertQueries += o.AssertQueries
	st.PanicQueries += o.PanicQueries
	st.BranchQueries += o.BranchQueries
	st.Assumes += o.Assumes
	st.UnknownQueries += o.UnknownQueries
	addM := func(dst, src map[string]int) {
		for k, v := range src {
			dst[k] += v
		}
	}
	addM(st.PathEnds, o.PathEnds)
	addM(st.Funcs, o.Funcs)
	addM(st.Stubs, o.Stubs)
	addM(st.Unsupported, o.Unsupported)
	addM(st.ForkSites, o.ForkSites)
	for k, v := range o.InitFailed {
		st.InitFailed[k] = v
	}
}

// expectedLabels scans the harness function (and the harness helpers it calls)
// for constant labels of vnd.Assert / vnd.Cover calls.
func expectedLabels(fn *ssa.Function) (asserts, covers []string) {
	seen := map[*ssa.Function]bool{}
	var visit func(f *ssa.Function)
	visit = func(f *ssa.Function) {
		if f == nil || seen[f] || f.Blocks == nil {
			return
		}
		seen[f] = true
		for _, b := range f.Blocks {
			for _, in := range b.Instrs {
				if mc, ok := in.(*ssa.MakeClosure); ok {
					visit(mc.Fn.(*ssa.Function))
				}
				c, ok := in.(ssa.CallInstruction)
				if !ok {
					continue
				}
				callee := c.Common().StaticCallee()
				if callee == nil {
					continue
				}
				name := callee.String()
				if name == VndPath+".Assert" || name == VndPath+".Cover" {
					if k, ok := c.Common().Args[1].(*ssa.Const); ok {
						l := constValue(k).(Str).S
						if strings.HasSuffix(name, "Assert") {
							asserts = append(asserts, l)
						} else {
							covers = append(covers, l)
						}
					}
					continue
				}
				if callee.Pkg == fn.Pkg && (strings.HasPrefix(callee.Name(), "verif") || strings.HasPrefix(callee.Name(), "Verif") || callee.Parent() != nil) {
					visit(callee)
				}
			}
		}
		for _, af := range f.AnonFuncs {
			visit(af)
		}
	}
	visit(fn)
	return
}

// Explore runs paths of fn. With prefixes == nil it starts from the root. With
// splitAt > 0 it explores breadth-first and stops as soon as at least splitAt
// prefixes are pending, returning them in Raw.Pending.
func (m *Machine) Explore(fn *ssa.Function, prefixes [][]int64, splitAt int) *Raw {
	start := time.Now()
	raw := &Raw{Entry: fn.Name(), PathEnds: map[string]int{}, Inconc: map[string]int{}}
	m.entry = fn.Name()
	if prefixes == nil {
		m.work = [][]int64{nil}
	} else {
		m.work = append([][]int64{}, prefixes...)
	}
	m.St.CoverHit = map[string][]map[string]string{}
	m.St.AssertSeen = map[string]int{}
	m.unknownAsserts = nil
	nviolBefore := len(m.Violations)
	for {
		if len(m.work) == 0 {
			if m.Sched == nil {
				break
			}
			more := m.Sched.Idle()
			if len(more) == 0 {
				break
			}
			m.work = more
		} else if m.Sched != nil && raw.Paths%8 == 7 {
			m.Sched.Yield(&m.work)
		}
		if splitAt > 0 && len(m.work) >= splitAt {
			raw.Pending = m.work
			m.work = nil
			break
		}
		if raw.Paths >= m.Cfg.MaxPaths {
			raw.Inconc[fmt.Sprintf("path budget %d exhausted with %d prefixes pending", m.Cfg.MaxPaths, len(m.work))]++
			break
		}
		var p []int64
		if splitAt > 0 {
			p = m.work[0]
			m.work = m.work[1:]
		} else {
			p = m.work[len(m.work)-1]
			m.work = m.work[:len(m.work)-1]
		}
		if raw.Paths > 0 && raw.Paths%300 == 0 {
			m.S.Reset() // shed the definitions accumulated by earlier paths
		}
		end := m.runPath(fn, p)
		raw.Paths++
		m.St.Paths++
		raw.PathEnds[end.Kind]++
		m.St.PathEnds[end.Kind]++
		m.St.Steps += int64(m.steps)
		if m.maxAlloc > raw.MaxAlloc {
			raw.MaxAlloc = m.maxAlloc
		}
		switch end.Kind {
		case "unsupported", "budget":
			raw.Inconc[end.Kind+": "+end.Msg]++
			m.St.Unsupported[end.Msg]++
		}
		if m.Cfg.Verbose {
			fmt.Fprintf(os.Stderr, "  path %d: %s %s (decisions %d, steps %d, pending %d)\n", raw.Paths, end.Kind, end.Msg, len(m.taken), m.steps, len(m.work))
		}
		if m.Cfg.StopOnFirst && len(m.Violations) > nviolBefore {
			break
		}
	}
	for _, u := range m.unknownAsserts {
		raw.Inconc["solver unknown on assertion "+u]++
	}
	raw.AssertSeen = m.St.AssertSeen
	raw.CoverHit = m.St.CoverHit
	raw.Violations = m.Violations[nviolBefore:]
	raw.Bounds = m.BoundsUsed
	raw.Seconds = time.Since(start).Seconds()
	return raw
}

// MergeRaw folds b into a (same entry).
func MergeRaw(a, b *Raw) {
	a.Paths += b.Paths
	for k, v := range b.PathEnds {
		a.PathEnds[k] += v
	}
	for k, v := range b.Inconc {
		a.Inconc[k] += v
	}
	if a.AssertSeen == nil {
		a.AssertSeen = map[string]int{}
	}
	for k, v := range b.AssertSeen {
		a.AssertSeen[k] += v
	}
	if a.CoverHit == nil {
		a.CoverHit = map[string][]map[string]string{}
	}
	for k, v := range b.CoverHit {
		if _, ok := a.CoverHit[k]; !ok {
			a.CoverHit[k] = v
		}
	}
	have := map[string]bool{}
	for _, v := range a.Violations {
		have[v.Key] = true
	}
	for _, v := range b.Violations {
		if !have[v.Key] {
			a.Violations = append(a.Violations, v)
			have[v.Key] = true
		}
	}
	if a.Bounds == nil {
		a.Bounds = b.Bounds
	} else {
		for k, v := range b.Bounds {
			a.Bounds[k] = v
		}
	}
	if b.MaxAlloc > a.MaxAlloc {
		a.MaxAlloc = b.MaxAlloc
	}
}

// Finalize turns the merged raw outcome into the entry result, adding the
// vacuity checks (every assert site reached, every cover satisfiable).
func (m *Machine) Finalize(fn *ssa.Function, raw *Raw, seconds float64) *EntryResult {
	res := &EntryResult{Entry: fn.Name(), Paths: raw.Paths, PathEnds: raw.PathEnds, Covers: map[string]bool{}, Asserts: map[string]int{},
		MaxAlloc: raw.MaxAlloc, Bounds: raw.Bounds, Seconds: seconds, Violations: raw.Violations}
	inconc := raw.Inconc
	asserts, covers := expectedLabels(fn)
	for _, l := range asserts {
		res.Asserts[l] = raw.AssertSeen[l]
		if raw.AssertSeen[l] == 0 {
			inconc["assert site never reached: "+l]++
		}
	}
	for l, n := range raw.AssertSeen {
		res.Asserts[l] = n
	}
	for _, l := range covers {
		_, hit := raw.CoverHit[l]
		res.Covers[l] = hit
		if !hit {
			inconc["cover not reachable: "+l]++
		}
	}
	if m.coverByEntry == nil {
		m.coverByEntry = map[string]map[string][]map[string]string{}
	}
	m.coverByEntry[fn.Name()] = raw.CoverHit
	var cl []string
	for l := range raw.CoverHit {
		cl = append(cl, l)
	}
	sort.Strings(cl)
	for _, l := range cl {
		res.Covers[l] = true
		if res.Sample == nil {
			res.Sample = map[string]string{"cover": l}
			for _, e := range raw.CoverHit[l] {
				res.Sample[e["name"]] = e["val"]
			}
		}
	}
	var keys []string
	for k := range inconc {
		keys = append(keys, k)
	}
	sort.Strings(keys)
	for _, k := range keys {
		res.Inconclusive = append(res.Inconclusive, fmt.Sprintf("%s (×%d)", k, inconc[k]))
	}
	return res
}

// RunEntry explores all paths of a harness entry function in this process.
func (m *Machine) RunEntry(fn *ssa.Function) *EntryResult {
	raw := m.Explore(fn, nil, 0)
	return m.Finalize(fn, raw, raw.Seconds)
}

// runPath executes fn once following the decision prefix.
func (m *Machine) runPath(fn *ssa.Function, prefix []int64) (end pathEnd) {
	m.pc = nil
	m.prefix = prefix
	m.pos = 0
	m.taken = nil
	m.steps = 0
	m.inputs = nil
	m.nameCnt = nil
	m.trace = nil
	m.depth = 0
	m.inMerge = false
	m.pathNotes = nil
	m.pending = nil
	m.maxAlloc = 0
	m.allocLimit = 0
	m.goMode = ""
	m.sliceOf = map[*Value][]Value{}
	m.clock = 0
	m.model, m.modelValid, m.auxVars = nil, false, nil
	m.fs = nil
	m.mapOrder = nil
	m.fsLinks = nil
	defer func() {
		r := recover()
		m.killThreads()
		if tf, ok := r.(threadForward); ok {
			r = tf.r
		}
		switch r := r.(type) {
		case nil:
		case pathEnd:
			end = r
		case *goPanic:
			// uncaught interpreted panic: a violation of the harness
			res, model := m.S.Check(m.pc, nil, m.inputVars())
			if res == Sat {
				m.recordViolation("panic", r.Msg, r.Where, model)
			} else if res == Unknown {
				m.unknownAsserts = append(m.unknownAsserts, "panic path "+r.Msg)
			}
			end = pathEnd{"panic", r.Msg + " at " + r.Where}
		case mergeAbort:
			end = pathEnd{"unsupported", "merge abort escaped: " + r.why}
		default:
			if os.Getenv("SYMGO_CRASH") != "" {
				panic(r)
			}
			where := ""
			if m.lastFrame != nil {
				where = " at " + m.lastFrame.where()
			}
			end = pathEnd{"unsupported", fmt.Sprintf("engine error: %v%s", r, where)}
		}
	}()
	m.call(nil, fn, nil, nil)
	return pathEnd{"done", ""}
}
