package sym

import (
	"fmt"
	"os"
	"sort"
	"strings"
	"time"

	"golang.org/x/tools/go/ssa"
)

// EntryResult summarises the exploration of one harness entry.
type EntryResult struct {
	Entry        string            `json:"entry"`
	Paths        int               `json:"paths"`
	PathEnds     map[string]int    `json:"path_ends"`
	Inconclusive []string          `json:"inconclusive,omitempty"`
	Violations   []*Violation      `json:"violations,omitempty"`
	Covers       map[string]bool   `json:"covers"`
	Asserts      map[string]int    `json:"asserts"`
	Seconds      float64           `json:"seconds"`
	Bounds       map[string]int    `json:"bounds,omitempty"`
	Notes        []string          `json:"notes,omitempty"`
	MaxAlloc     int               `json:"max_alloc"`
	Sample       map[string]string `json:"sample,omitempty"`
}

// expectedLabels scans the harness function (and functions it references in
// the same package file) for constant labels of vnd.Assert / vnd.Cover calls.
func expectedLabels(fn *ssa.Function) (asserts, covers []string) {
	seen := map[*ssa.Function]bool{}
	var visit func(f *ssa.Function)
	visit = func(f *ssa.Function) {
		if f == nil || seen[f] || f.Blocks == nil {
			return
		}
		seen[f] = true
		for _, b := range f.Blocks {
			for _, in := range b.Instrs {
				if mc, ok := in.(*ssa.MakeClosure); ok {
					visit(mc.Fn.(*ssa.Function))
				}
				c, ok := in.(ssa.CallInstruction)
				if !ok {
					continue
				}
				callee := c.Common().StaticCallee()
				if callee == nil {
					continue
				}
				name := callee.String()
				if name == VndPath+".Assert" || name == VndPath+".Cover" {
					if k, ok := c.Common().Args[1].(*ssa.Const); ok {
						l := constValue(k).(Str).S
						if strings.HasSuffix(name, "Assert") {
							asserts = append(asserts, l)
						} else {
							covers = append(covers, l)
						}
					}
					continue
				}
				// harness helpers live in the same package and start with "verif"/"Verif"
				if callee.Pkg == fn.Pkg && (strings.HasPrefix(callee.Name(), "verif") || strings.HasPrefix(callee.Name(), "Verif") || callee.Parent() != nil) {
					visit(callee)
				}
			}
		}
		for _, af := range f.AnonFuncs {
			visit(af)
		}
	}
	visit(fn)
	return
}

// RunEntry explores all paths of a harness entry function.
func (m *Machine) RunEntry(fn *ssa.Function) *EntryResult {
	start := time.Now()
	res := &EntryResult{Entry: fn.Name(), PathEnds: map[string]int{}, Covers: map[string]bool{}, Asserts: map[string]int{}}
	m.entry = fn.Name()
	m.work = [][]int64{nil}
	m.St.CoverHit = map[string][]map[string]string{}
	m.St.AssertSeen = map[string]int{}
	m.unknownAsserts = nil
	nviolBefore := len(m.Violations)
	inconc := map[string]int{}
	for len(m.work) > 0 {
		if res.Paths >= m.Cfg.MaxPaths {
			inconc[fmt.Sprintf("path budget %d exhausted with %d prefixes pending", m.Cfg.MaxPaths, len(m.work))]++
			break
		}
		// depth-first: take the most recently pushed prefix
		p := m.work[len(m.work)-1]
		m.work = m.work[:len(m.work)-1]
		end := m.runPath(fn, p)
		res.Paths++
		m.St.Paths++
		res.PathEnds[end.Kind]++
		m.St.PathEnds[end.Kind]++
		m.St.Steps += int64(m.steps)
		if m.maxAlloc > res.MaxAlloc {
			res.MaxAlloc = m.maxAlloc
		}
		switch end.Kind {
		case "unsupported", "budget":
			inconc[end.Kind+": "+end.Msg]++
			m.St.Unsupported[end.Msg]++
		}
		if m.Cfg.Verbose {
			fmt.Fprintf(os.Stderr, "  path %d: %s %s (decisions %d, steps %d, pending %d)\n", res.Paths, end.Kind, end.Msg, len(m.taken), m.steps, len(m.work))
		}
		if m.Cfg.StopOnFirst && len(m.Violations) > nviolBefore {
			break
		}
	}
	for _, u := range m.unknownAsserts {
		inconc["solver unknown on assertion "+u]++
	}
	if m.St.UnknownQueries > 0 && len(m.unknownAsserts) == 0 {
		res.Notes = append(res.Notes, fmt.Sprintf("%d feasibility queries returned unknown (both sides kept)", m.St.UnknownQueries))
	}
	asserts, covers := expectedLabels(fn)
	for _, l := range asserts {
		res.Asserts[l] = m.St.AssertSeen[l]
		if m.St.AssertSeen[l] == 0 {
			inconc["assert site never reached: "+l]++
		}
	}
	for l, n := range m.St.AssertSeen {
		res.Asserts[l] = n
	}
	for _, l := range covers {
		_, hit := m.St.CoverHit[l]
		res.Covers[l] = hit
		if !hit {
			inconc["cover not reachable: "+l]++
		}
	}
	if m.coverByEntry == nil {
		m.coverByEntry = map[string]map[string][]map[string]string{}
	}
	m.coverByEntry[fn.Name()] = m.St.CoverHit
	var cl []string
	for l := range m.St.CoverHit {
		cl = append(cl, l)
	}
	sort.Strings(cl)
	for _, l := range cl {
		res.Covers[l] = true
		if res.Sample == nil {
			res.Sample = map[string]string{"cover": l}
			for _, e := range m.St.CoverHit[l] {
				res.Sample[e["name"]] = e["val"]
			}
		}
	}
	var keys []string
	for k := range inconc {
		keys = append(keys, k)
	}
	sort.Strings(keys)
	for _, k := range keys {
		res.Inconclusive = append(res.Inconclusive, fmt.Sprintf("%s (×%d)", k, inconc[k]))
	}
	res.Violations = m.Violations[nviolBefore:]
	res.Bounds = m.BoundsUsed
	res.Seconds = time.Since(start).Seconds()
	return res
}

// runPath executes fn once following the decision prefix.
func (m *Machine) runPath(fn *ssa.Function, prefix []int64) (end pathEnd) {
	m.pc = nil
	m.prefix = prefix
	m.pos = 0
	m.taken = nil
	m.steps = 0
	m.inputs = nil
	m.nameCnt = nil
	m.trace = nil
	m.depth = 0
	m.inMerge = false
	m.pathNotes = nil
	m.pending = nil
	m.maxAlloc = 0
	m.allocLimit = 0
	m.goMode = ""
	m.onceDone = nil
	m.sliceOf = map[*Value][]Value{}
	m.clock = 0
	defer func() {
		r := recover()
		switch r := r.(type) {
		case nil:
		case pathEnd:
			end = r
		case *goPanic:
			// uncaught interpreted panic: a violation of the harness
			res, model := m.S.Check(m.pc, nil, m.inputVars())
			if res == Sat {
				m.recordViolation("panic", r.Msg, r.Where, model)
			} else if res == Unknown {
				m.unknownAsserts = append(m.unknownAsserts, "panic path "+r.Msg)
			}
			end = pathEnd{"panic", r.Msg + " at " + r.Where}
		case mergeAbort:
			end = pathEnd{"unsupported", "merge abort escaped: " + r.why}
		default:
			panic(r)
		}
	}()
	m.call(nil, fn, nil, nil)
	return pathEnd{"done", ""}
}
