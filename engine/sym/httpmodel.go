package sym

import (
	"go/types"
	"math"
	"reflect"
	"strings"
)

// Environment models for the HTTP/JWT authentication back ends (C02).
//
//	json.Marshal(struct): a flat struct of strings and nil pointers is encoded field by field in
//	    declaration order with the keys of its json tags; every string value goes through
//	    encoding/json's own appendString (interpreted). Other shapes are unsupported.
//	(*http.Client).Post(url, contentType, body): the body is read and handed to the harness
//	    function verifHTTPPost(url string, body []byte) (status int, response []byte) of the calling
//	    package — the harness plays the authentication server (natively it runs a real one). A
//	    negative status is a transport error.
//	jwt.ParseWithClaims(token, claims, keyfunc, opts...): handed to the harness function
//	    verifJWTParse(token string, claims *jwtClaims, issuer, audience string) error of the calling package —
//	    signature, expiry, issuer and audience checks are the library's and are not modelled.
//	(*auth.Manager).pullJWTJWKS: returns a nil key function (the parse model does not use it).

func (m *Machine) jsonMarshalStruct(fr *frame, itf Iface) Value {
	st := itf.T.Underlying().(*types.Struct)
	sv, ok := itf.V.(Struct)
	if !ok {
		panic(unsupported("encoding/json.Marshal: struct value expected"))
	}
	inst := m.jsonAppendString()
	if inst == nil {
		panic(unsupported("encoding/json.appendString[string] not found"))
	}
	lit := func(s string) []Value {
		out := make([]Value, len(s))
		for i := 0; i < len(s); i++ {
			out[i] = BV(8, uint64(s[i]))
		}
		return out
	}
	out := lit("{")
	first := true
	for i := 0; i < st.NumFields(); i++ {
		f := st.Field(i)
		if !f.Exported() {
			continue
		}
		key := f.Name()
		if tag := reflect.StructTag(st.Tag(i)).Get("json"); tag != "" {
			name, _, _ := strings.Cut(tag, ",")
			if name == "-" {
				continue
			}
			if name != "" {
				key = name
			}
			if strings.Contains(tag, ",") {
				panic(unsupported("encoding/json.Marshal: tag options on field " + f.Name()))
			}
		}
		if !first {
			out = append(out, lit(",")...)
		}
		first = false
		out = append(out, lit(`"`+key+`":`)...)
		switch {
		case isString(f.Type()):
			enc := m.call(fr, inst, []Value{[]Value(nil), sv[i], T.True}, nil)
			out = append(out, enc.([]Value)...)
		default:
			if p, isPtr := sv[i].(*Value); isPtr && p == nil {
				out = append(out, lit("null")...)
			} else {
				panic(unsupported("encoding/json.Marshal: field " + f.Name() + " of type " + f.Type().String()))
			}
		}
	}
	out = append(out, lit("}")...)
	return Tuple{out, Iface{}}
}

func (m *Machine) harnessFunc(fr *frame, name string) Value {
	for c := fr.caller; c != nil; c = c.caller {
		if c.fn.Pkg == nil {
			continue
		}
		if f := c.fn.Pkg.Func(name); f != nil {
			return &Closure{Fn: f}
		}
	}
	panic(unsupported("harness function " + name + " not found in the calling packages"))
}

func init() {
	reg("(*net/http.Transport).CloseIdleConnections", noop)
	reg("(*net/http.Client).Post", func(m *Machine, fr *frame, a []Value) Value {
		res := fr.fn.Signature.Results()
		body := m.call(fr, m.pkgFunc("io", "ReadAll"), []Value{a[3]}, nil).(Tuple)
		if e := body[1].(Iface); e.T != nil {
			return Tuple{(*Value)(nil), e}
		}
		r := m.callValue(fr, m.harnessFunc(fr, "verifHTTPPost"), []Value{a[1], body[0]}).(Tuple)
		status := asTerm(r[0])
		if m.branch(Cmp(OpSlt, status, BV(64, 0)), "http: transport error") {
			return Tuple{(*Value)(nil), m.newError(fr, MkStr("connection refused"))}
		}
		cell := new(Value)
		rt := deref(res.At(0).Type()).Underlying().(*types.Struct)
		*cell = zero(deref(res.At(0).Type()))
		rd := m.call(fr, m.pkgFunc("bytes", "NewReader"), []Value{r[1]}, nil)
		rdT := m.pkgFunc("bytes", "NewReader").Signature.Results().At(0).Type()
		rc := m.call(fr, m.pkgFunc("io", "NopCloser"), []Value{Iface{T: rdT, V: rd}}, nil)
		for i := 0; i < rt.NumFields(); i++ {
			switch rt.Field(i).Name() {
			case "StatusCode":
				(*cell).(Struct)[i] = status
			case "Body":
				(*cell).(Struct)[i] = rc
			}
		}
		return Tuple{cell, Iface{}}
	})
	// Conf.Validate as seen from core's API edit functions (C12): an arbitrary verdict. Which edits are
	// invalid is not the subject there; that the running configuration survives any verdict is.
	reg("(*"+modPathConst+"/internal/conf.Conf).Validate", func(m *Machine, fr *frame, a []Value) Value {
		if fr.caller == nil || fr.caller.fn.Pkg == nil || !strings.HasSuffix(fr.caller.fn.Pkg.Pkg.Path(), "/internal/core") {
			return notIntrinsic{}
		}
		if m.branch(m.freshVar("conf.Validate.rejects", 0), "conf.Validate verdict") {
			return m.newError(fr, MkStr("invalid configuration"))
		}
		return Iface{}
	})
	reg("(*"+modPathConst+"/internal/auth.Manager).pullJWTJWKS", func(m *Machine, fr *frame, a []Value) Value {
		return Tuple{zero(fr.fn.Signature.Results().At(0).Type()), Iface{}}
	})
	reg("github.com/golang-jwt/jwt/v5.ParseWithClaims", func(m *Machine, fr *frame, a []Value) Value {
		// the requirements handed to the library: WithIssuer / WithAudience closures and what they bind
		issuer, audience := Value(MkStr("")), Value(MkStr(""))
		if s, ok := a[3].([]Value); ok {
			for _, o := range s {
				c, _ := o.(*Closure)
				if c == nil || c.Fn.Parent() == nil || len(c.Env) != 1 {
					panic(unsupported("jwt.ParseWithClaims: parser option that is not WithIssuer/WithAudience"))
				}
				switch c.Fn.Parent().Name() {
				case "WithIssuer":
					issuer = derefCell(c.Env[0])
				case "WithAudience":
					aud := derefCell(c.Env[0])
					if l, isList := aud.([]Value); isList {
						if len(l) != 1 {
							panic(unsupported("jwt.WithAudience with several audiences"))
						}
						aud = l[0]
					}
					audience = aud
				default:
					panic(unsupported("jwt.ParseWithClaims: parser option " + c.Fn.Parent().Name()))
				}
			}
		}
		claims, ok := a[1].(Iface)
		if !ok || claims.T == nil {
			panic(unsupported("jwt.ParseWithClaims: claims"))
		}
		e := m.callValue(fr, m.harnessFunc(fr, "verifJWTParse"), []Value{a[0], claims.V, issuer, audience})
		return Tuple{(*Value)(nil), e}
	})
}

func derefCell(v Value) Value {
	if p, ok := v.(*Value); ok && p != nil {
		return *p
	}
	return v
}

func init() {
	// httpp.Server.Initialize/Close: listening is the kernel's; the router is what the harness asks
	reg("(*"+modPathConst+"/internal/protocols/httpp.Server).Initialize", func(m *Machine, fr *frame, a []Value) Value { return Iface{} })
	reg("(*"+modPathConst+"/internal/protocols/httpp.Server).Close", noop)
}

func init() {
	// gin names handler functions for its route listing and debug output
	reg("(reflect.Value).Pointer", func(m *Machine, fr *frame, a []Value) Value { return BV(64, 0x1000) })
	reg("runtime.FuncForPC", func(m *Machine, fr *frame, a []Value) Value { return (*Value)(nil) })
	reg("(*runtime.Func).Name", func(m *Machine, fr *frame, a []Value) Value { return MkStr("") })
}

func init() {
	// concrete floating point only: the bit patterns of values the interpreter holds as Go floats
	reg("math.Float64bits", func(m *Machine, fr *frame, a []Value) Value {
		f, ok := a[0].(float64)
		if !ok {
			panic(unsupported("math.Float64bits of a symbolic value"))
		}
		return BV(64, math.Float64bits(f))
	})
	reg("internal/strconv.float64bits", func(m *Machine, fr *frame, a []Value) Value {
		f, ok := a[0].(float64)
		if !ok {
			panic(unsupported("float64bits of a symbolic value"))
		}
		return BV(64, math.Float64bits(f))
	})
	reg("internal/strconv.float32bits", func(m *Machine, fr *frame, a []Value) Value {
		f, ok := a[0].(float64)
		if !ok {
			panic(unsupported("float32bits of a symbolic value"))
		}
		return BV(32, uint64(math.Float32bits(float32(f))))
	})
	reg("math.Float64frombits", func(m *Machine, fr *frame, a []Value) Value {
		t := asTerm(a[0])
		if !t.IsConst() {
			panic(unsupported("math.Float64frombits of a symbolic value"))
		}
		return math.Float64frombits(t.Val)
	})
}
