package sym

import (
	"crypto/sha256"
	"fmt"
	"go/types"

	"golang.org/x/tools/go/ssa"
)

// sha256 contract: on concrete input the real digest; on symbolic input an
// uninterpreted function of the input bytes (functional consistency, no collisions
// are derivable, none are excluded).
func (m *Machine) sha256Of(in []*Term) []Value {
	conc := true
	for _, b := range in {
		if !b.IsConst() {
			conc = false
			break
		}
	}
	out := make([]Value, 32)
	if conc {
		buf := make([]byte, len(in))
		for i, b := range in {
			buf[i] = byte(b.Val)
		}
		d := sha256.Sum256(buf)
		for i := range out {
			out[i] = BV(8, uint64(d[i]))
		}
		return out
	}
	for i := range out {
		out[i] = UF(fmt.Sprintf("sha256_%d_len%d", i, len(in)), 8, in...)
	}
	return out
}

func init() {
	reg("crypto/sha256.Sum256", func(m *Machine, fr *frame, a []Value) Value {
		return Array(m.sha256Of(sliceTerms(a[0].([]Value))))
	})
	reg("crypto/sha256.New", func(m *Machine, fr *frame, a []Value) Value {
		var acc []*Term
		obj := &NativeObj{Name: "sha256.digest"}
		obj.Methods = map[string]func(m *Machine, fr *frame, args []Value) Value{
			"Write": func(m *Machine, fr *frame, args []Value) Value {
				p := sliceTerms(args[1].([]Value))
				acc = append(acc, p...)
				return Tuple{BV(64, uint64(len(p))), Iface{}}
			},
			"Sum": func(m *Machine, fr *frame, args []Value) Value {
				prefix, _ := args[1].([]Value)
				out := append(append([]Value{}, prefix...), m.sha256Of(acc)...)
				return out
			},
			"Reset":     func(m *Machine, fr *frame, args []Value) Value { acc = nil; return nil },
			"Size":      func(m *Machine, fr *frame, args []Value) Value { return BV(64, 32) },
			"BlockSize": func(m *Machine, fr *frame, args []Value) Value { return BV(64, 64) },
		}
		// the dynamic type only matters for type switches; none are applied to hash.Hash here
		return Iface{T: fr.fn.Signature.Results().At(0).Type(), V: obj}
	})
}

// encoding/json.Marshal is reflection-driven; for a string argument its result is
// produced by the package's own appendString (pure byte code), which is what the
// engine interprets. Other argument types are not supported.
func init() {
	reg("encoding/json.Marshal", func(m *Machine, fr *frame, a []Value) Value {
		itf, ok := a[0].(Iface)
		if ok && itf.T != nil {
			if _, isStruct := itf.T.Underlying().(*types.Struct); isStruct {
				return m.jsonMarshalStruct(fr, itf)
			}
		}
		if !ok || itf.T == nil || !isString(itf.T) {
			panic(unsupported("encoding/json.Marshal of a value that is neither a string nor a flat struct"))
		}
		inst := m.jsonAppendString()
		if inst == nil {
			panic(unsupported("encoding/json.appendString[string] not found"))
		}
		out := m.call(fr, inst, []Value{[]Value(nil), itf.V, T.True}, nil)
		return Tuple{out, Iface{}}
	})
}

func (m *Machine) jsonAppendString() *ssa.Function {
	if m.jsonAppend != nil {
		return m.jsonAppend
	}
	pkg := m.Prog.ImportedPackage("encoding/json")
	if pkg == nil {
		return nil
	}
	pkg.Build()
	for _, mem := range pkg.Members {
		f, ok := mem.(*ssa.Function)
		if !ok {
			continue
		}
		for _, b := range f.Blocks {
			for _, in := range b.Instrs {
				c, ok := in.(ssa.CallInstruction)
				if !ok {
					continue
				}
				callee := c.Common().StaticCallee()
				if callee == nil || callee.Origin() == nil || callee.Origin().Name() != "appendString" {
					continue
				}
				if ta := callee.TypeArgs(); len(ta) == 1 && isString(ta[0]) {
					m.jsonAppend = callee
					return callee
				}
			}
		}
	}
	return nil
}

func init() {
	// secretbox.Open: contract stub — fails, or succeeds with a plaintext of len(box)-16 arbitrary bytes
	reg("golang.org/x/crypto/nacl/secretbox.Open", func(m *Machine, fr *frame, a []Value) Value {
		box, _ := a[1].([]Value)
		ok := m.freshVar("secretbox.ok", 0)
		if len(box) < 16 || !m.branch(ok, "secretbox.Open") {
			return Tuple{[]Value(nil), T.False}
		}
		out := make([]Value, len(box)-16)
		for i := range out {
			out[i] = m.freshVar("secretbox.plain", 8)
		}
		return Tuple{out, T.True}
	})
}

func init() {
	// crypto/subtle.ConstantTimeCompare: 1 iff equal length and contents (its documented contract;
	// the implementation relies on compiler intrinsics)
	ctc := func(m *Machine, fr *frame, a []Value) Value {
		x, y := sliceTerms(a[0].([]Value)), sliceTerms(a[1].([]Value))
		if len(x) != len(y) {
			return BV(64, 0)
		}
		return Ite(strEq(StrFromTerms(x), StrFromTerms(y)), BV(64, 1), BV(64, 0))
	}
	reg("crypto/subtle.ConstantTimeCompare", ctc)
	reg("crypto/internal/fips140/subtle.ConstantTimeCompare", ctc)
	reg("crypto/internal/constanttime.boolToUint8", func(m *Machine, fr *frame, a []Value) Value {
		return Ite(asTerm(a[0]), BV(8, 1), BV(8, 0))
	})
}
