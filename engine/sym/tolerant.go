package sym

import (
	"fmt"
	"go/types"
	"os"

	"golang.org/x/tools/go/ssa"
)

// visitTolerant executes one instruction of a package initialiser. A global
// initialiser that cannot be interpreted (code without a body, an unsupported
// unsafe cast, a panic) leaves its destination at the zero value and is
// recorded; the remaining initialisers still run.
func (m *Machine) visitTolerant(fr *frame, instr ssa.Instruction) (k continuation) {
	defer func() {
		if r := recover(); r != nil {
			var why string
			switch r := r.(type) {
			case pathEnd:
				if r.Kind != "unsupported" {
					panic(r)
				}
				why = r.Msg
			case *goPanic:
				why = r.Msg
			default:
				panic(r)
			}
			key := fr.fn.Pkg.Pkg.Path()
			m.St.InitFailed[key] = truncateStr(m.St.InitFailed[key]+fmt.Sprintf("[%s: %s] ", m.pos2str(instr.Pos()), why), 600)
			if v, ok := instr.(ssa.Value); ok {
				func() {
					defer func() { recover() }()
					fr.env[v] = zero(v.Type())
				}()
			}
			k = kNext
		}
	}()
	return m.visitInstr(fr, instr)
}

func truncateStr(s string, n int) string {
	if len(s) > n {
		return s[:n] + "…"
	}
	return s
}

func init() {
	// unique.Make: canonical handle per value (the real one uses unsafe and runtime hooks)
	reg("unique.Make", func(m *Machine, fr *frame, a []Value) Value {
		if m.uniq == nil {
			m.uniq = map[string]*Value{}
		}
		key := fr.fn.String() + "|" + describe(a[0])
		cell, ok := m.uniq[key]
		if !ok {
			cell = new(Value)
			*cell = copyVal(a[0])
			m.uniq[key] = cell
		}
		return Struct{cell}
	})
}

func init() {
	sortSlice := func(m *Machine, fr *frame, a []Value) Value {
		itf := a[0].(Iface)
		s, ok := itf.V.([]Value)
		if !ok {
			panic(unsupported("sort.Slice on non-slice"))
		}
		less := a[1]
		// insertion sort (what pdqsort does below 12 elements); stable, so it also serves SliceStable
		for i := 1; i < len(s); i++ {
			for j := i; j > 0; j-- {
				r := m.callValue(fr, less, []Value{BV(64, uint64(j)), BV(64, uint64(j-1))})
				if !m.branch(asTerm(r), "sort.Slice/less") {
					break
				}
				s[j], s[j-1] = s[j-1], s[j]
			}
		}
		return nil
	}
	reg("sort.Slice", sortSlice)
	reg("sort.SliceStable", sortSlice)
}

func init() {
	// the server's local zone is modelled as UTC: the zero Location behaves as UTC
	reg("time.initLocal", noop)
}

func init() {
	// vnd.MapOrder(true): every range over a map forks over all permutations of its keys
	reg(VndPath+".MapOrder", func(m *Machine, fr *frame, a []Value) Value {
		if asTerm(a[0]).IsTrue() {
			m.mapOrder = permuteKeys
		} else {
			m.mapOrder = nil
		}
		return nil
	})
}

func permuteKeys(m *Machine, fr *frame, keys []Value) []Value {
	n := len(keys)
	if n < 2 {
		return keys
	}
	if n > 5 {
		panic(unsupported("MapOrder: more than 5 keys"))
	}
	// choose the permutation step by step (n * (n-1) * … alternatives in total)
	rest := append([]Value{}, keys...)
	var out []Value
	for len(rest) > 1 {
		sel := m.freshVar("maporder", 8)
		alts := make([]*Term, len(rest))
		for i := range alts {
			alts[i] = Eq(sel, BV(8, uint64(i)))
		}
		k := m.choose(alts, "map-order")
		out = append(out, rest[k])
		rest = append(rest[:k:k], rest[k+1:]...)
	}
	return append(out, rest[0])
}

func init() {
	// sync/atomic.Value: single actor, so a plain cell
	av := func(a []Value) Struct { return (*(a[0].(*Value))).(Struct) }
	reg("(*sync/atomic.Value).Load", func(m *Machine, fr *frame, a []Value) Value { return av(a)[0] })
	reg("(*sync/atomic.Value).Store", func(m *Machine, fr *frame, a []Value) Value {
		if v := a[1].(Iface); v.T == nil {
			m.rtPanic(fr, T.True, "sync/atomic: store of nil value into Value")
		}
		av(a)[0] = a[1]
		return nil
	})
	reg("(*sync/atomic.Value).Swap", func(m *Machine, fr *frame, a []Value) Value {
		old := av(a)[0]
		av(a)[0] = a[1]
		return old
	})
	reg("(*sync/atomic.Value).CompareAndSwap", func(m *Machine, fr *frame, a []Value) Value {
		cur := av(a)[0].(Iface)
		old := a[1].(Iface)
		eq := false
		if cur.T == nil || old.T == nil {
			eq = cur.T == nil && old.T == nil
		} else {
			eq = m.valEq(nil, cur, old).IsTrue()
		}
		if eq {
			av(a)[0] = a[2]
		}
		return Bool(eq)
	})
	reg("github.com/google/uuid.New", func(m *Machine, fr *frame, a []Value) Value {
		m.uuidCount++
		u := make(Array, 16)
		for i := range u {
			u[i] = BV(8, 0)
		}
		u[15] = BV(8, uint64(m.uuidCount))
		u[14] = BV(8, uint64(m.uuidCount>>8))
		return u
	})
	reg("time.Now", func(m *Machine, fr *frame, a []Value) Value {
		if m.threadsOn() {
			m.mainThread()
			return timeStruct(fr.fn.Signature.Results().At(0).Type(), m.thr.vclock)
		}
		// a fixed instant: harnesses that need a clock inject their own
		return zero(fr.fn.Signature.Results().At(0).Type())
	})
	reg("time.runtimeNano", func(m *Machine, fr *frame, a []Value) Value { return BV(64, 1) })
}

func init() {
	// forward.(*DestHandler).stop: cancel the context; the wait for the goroutine (which the
	// engine does not run) is dropped
	reg("(*"+modPathConst+"/internal/forward.DestHandler).stop", func(m *Machine, fr *frame, a []Value) Value {
		h := a[0].(*Value)
		if h == nil {
			m.rtPanic(fr, T.True, "invalid memory address or nil pointer dereference")
		}
		st := (*h).(Struct)
		ht := fr.fn.Signature.Recv().Type()
		hs := deref(ht).Underlying().(*types.Struct)
		for i := 0; i < hs.NumFields(); i++ {
			if hs.Field(i).Name() == "ctxCancel" {
				m.callValue(fr, st[i], nil)
			}
		}
		return nil
	})
}

const modPathConst = "github.com/bluenviron/mediamtx"

// deepCopy is the contract of conf.(Path|Conf).Clone (a reflection program in the real code):
// a structurally equal value sharing no memory with the original.
func deepCopy(v Value, seen map[*Value]*Value) Value {
	switch x := v.(type) {
	case Struct:
		r := make(Struct, len(x))
		for i := range x {
			r[i] = deepCopy(x[i], seen)
		}
		return r
	case Array:
		r := make(Array, len(x))
		for i := range x {
			r[i] = deepCopy(x[i], seen)
		}
		return r
	case []Value:
		if x == nil {
			return x
		}
		r := make([]Value, len(x), cap(x))
		for i := range x {
			r[i] = deepCopy(x[i], seen)
		}
		return r
	case *Value:
		if x == nil {
			return x
		}
		if c, ok := seen[x]; ok {
			return c
		}
		c := new(Value)
		seen[x] = c
		*c = deepCopy(*x, seen)
		return c
	case *Map:
		if x == nil {
			return x
		}
		r := &Map{KT: x.KT}
		for i := range x.Keys {
			r.Keys = append(r.Keys, deepCopy(x.Keys[i], seen))
			r.Vals = append(r.Vals, deepCopy(x.Vals[i], seen))
		}
		if x.fast != nil {
			r.fast = map[string]int{}
			for k, i := range x.fast {
				r.fast[k] = i
			}
		}
		return r
	case Iface:
		return Iface{T: x.T, V: deepCopy(x.V, seen)}
	}
	return v
}

func init() {
	reg("("+modPathConst+"/internal/conf.Path).Clone", func(m *Machine, fr *frame, a []Value) Value {
		if os.Getenv("SYMGO_STUBCLONE") == "" {
			return notIntrinsic{} // the real deepClone is interpreted over the reflect model
		}
		c := new(Value)
		*c = deepCopy(a[0], map[*Value]*Value{})
		return c
	})
	reg("("+modPathConst+"/internal/conf.Conf).Clone", func(m *Machine, fr *frame, a []Value) Value {
		if os.Getenv("SYMGO_STUBCLONE") == "" {
			return notIntrinsic{}
		}
		c := new(Value)
		*c = deepCopy(a[0], map[*Value]*Value{})
		return c
	})
}

func init() {
	// core.emptyTimer: a timer that has fired and been drained; timers are not modelled
	reg(modPathConst+"/internal/core.emptyTimer", func(m *Machine, fr *frame, a []Value) Value {
		cell := new(Value)
		*cell = zero(deref(fr.fn.Signature.Results().At(0).Type()))
		return cell
	})
}

func init() {
	// errordumper: a reporting goroutine that only logs; Stop would wait for it
	reg("(*"+modPathConst+"/internal/errordumper.Dumper).Start", noop)
	reg("(*"+modPathConst+"/internal/errordumper.Dumper).Stop", noop)
}
