package sym

import (
	"fmt"
	"go/token"
	"go/types"

	"golang.org/x/tools/go/ssa"
)

func (m *Machine) visitInstr(fr *frame, instr ssa.Instruction) continuation {
	switch instr := instr.(type) {
	case *ssa.DebugRef:
		// no-op

	case *ssa.UnOp:
		fr.env[instr] = m.unop(fr, instr, fr.get(instr.X))

	case *ssa.BinOp:
		fr.env[instr] = m.binop(fr, instr.Op, instr.X.Type(), fr.get(instr.X), fr.get(instr.Y), instr.Y.Type())

	case *ssa.Call:
		fn, args := m.prepareCall(fr, &instr.Call)
		fr.env[instr] = m.callValue(fr, fn, args)

	case *ssa.ChangeInterface:
		fr.env[instr] = fr.get(instr.X)

	case *ssa.ChangeType:
		fr.env[instr] = fr.get(instr.X)

	case *ssa.Convert:
		fr.env[instr] = m.conv(fr, instr.Type(), instr.X.Type(), fr.get(instr.X))

	case *ssa.MultiConvert:
		fr.env[instr] = m.conv(fr, instr.Type(), instr.X.Type(), fr.get(instr.X))

	case *ssa.SliceToArrayPointer:
		x := fr.get(instr.X).([]Value)
		n := int(deref(instr.Type()).Underlying().(*types.Array).Len())
		if len(x) < n {
			m.rtPanic(fr, T.True, "cannot convert slice to array pointer: length too short")
		}
		if x == nil && n == 0 {
			fr.env[instr] = (*Value)(nil)
		} else {
			cell := new(Value)
			*cell = Array(x[:n:n])
			fr.env[instr] = cell
		}

	case *ssa.MakeInterface:
		fr.env[instr] = Iface{T: instr.X.Type(), V: fr.get(instr.X)}

	case *ssa.Extract:
		fr.env[instr] = fr.get(instr.Tuple).(Tuple)[instr.Index]

	case *ssa.Slice:
		fr.env[instr] = m.sliceOp(fr, instr, fr.get(instr.X), fr.get(instr.Low), fr.get(instr.High), fr.get(instr.Max))

	case *ssa.Return:
		switch len(instr.Results) {
		case 0:
		case 1:
			fr.result = fr.get(instr.Results[0])
		default:
			res := make(Tuple, 0, len(instr.Results))
			for _, r := range instr.Results {
				res = append(res, fr.get(r))
			}
			fr.result = res
		}
		fr.block = nil
		return kReturn

	case *ssa.RunDefers:
		fr.runDefers()

	case *ssa.Panic:
		v := fr.get(instr.X)
		panic(&goPanic{Val: v, Msg: "panic: " + m.panicString(v), Where: fr.where() + m.stack(fr)})

	case *ssa.Send:
		m.chanSend(fr, fr.get(instr.Chan), fr.get(instr.X))

	case *ssa.Store:
		m.store(fr, fr.get(instr.Addr), fr.get(instr.Val))

	case *ssa.If:
		c := asTerm(fr.get(instr.Cond))
		if !c.IsConst() && !m.inMerge {
			if m.tryMerge(fr, instr, c) {
				return kJump
			}
		}
		succ := 1
		if m.branch(c, "if@"+fr.where()) {
			succ = 0
		}
		fr.prevBlock, fr.block = fr.block, fr.block.Succs[succ]
		return kJump

	case *ssa.Jump:
		fr.prevBlock, fr.block = fr.block, fr.block.Succs[0]
		return kJump

	case *ssa.Defer:
		fn, args := m.prepareCall(fr, &instr.Call)
		defers := &fr.defers
		if instr.DeferStack != nil {
			if into := fr.get(instr.DeferStack); into != nil {
				defers = into.(**deferred)
			}
		}
		*defers = &deferred{fn: fn, args: args, instr: instr, tail: *defers}

	case *ssa.Go:
		fn, args := m.prepareCall(fr, &instr.Call)
		m.spawn(fr, fn, args)

	case *ssa.MakeChan:
		n := m.concretize(asTerm(fr.get(instr.Size)), "makechan")
		fr.env[instr] = &Chan{Cap: int(n), ElemT: instr.Type().Underlying().(*types.Chan).Elem(), Name: fr.where()}

	case *ssa.Alloc:
		var addr *Value
		if instr.Heap {
			addr = new(Value)
			fr.env[instr] = addr
		} else {
			addr = fr.env[instr].(*Value)
		}
		*addr = zero(deref(instr.Type()))

	case *ssa.MakeSlice:
		lt, ct := m.toIndex(asTerm(fr.get(instr.Len)), instr.Len.Type()), m.toIndex(asTerm(fr.get(instr.Cap)), instr.Cap.Type())
		// negative sizes panic; sizes above the harness' allocation limit are violations;
		// sizes above 2^24 elements are not modelled
		m.rtPanic(fr, Cmp(OpSlt, lt, BV(64, 0)), "makeslice: len out of range")
		m.rtPanic(fr, Or(Cmp(OpSlt, ct, BV(64, 0)), Cmp(OpSlt, ct, lt)), "makeslice: cap out of range")
		m.allocCheck(fr, ct)
		n := m.concretizeSize(lt, "makeslice-len@"+fr.where())
		c := n
		if ct != lt {
			c = m.concretizeSize(ct, "makeslice-cap@"+fr.where())
		}
		m.noteAlloc(fr, int(c))
		s := make([]Value, c)
		tElt := instr.Type().Underlying().(*types.Slice).Elem()
		for i := range s {
			s[i] = zero(tElt)
		}
		fr.env[instr] = s[:n]

	case *ssa.MakeMap:
		fr.env[instr] = &Map{KT: instr.Type().Underlying().(*types.Map).Key()}

	case *ssa.Range:
		fr.env[instr] = m.rangeIter(fr, fr.get(instr.X), instr.X.Type())

	case *ssa.Next:
		fr.env[instr] = fr.get(instr.Iter).(*RangeIter).next(m, fr)

	case *ssa.FieldAddr:
		p := fr.get(instr.X)
		pp, ok := p.(*Value)
		if !ok {
			panic(unsupported(fmt.Sprintf("FieldAddr on %T", p)))
		}
		if pp == nil {
			m.rtPanic(fr, T.True, "invalid memory address or nil pointer dereference")
		}
		fr.env[instr] = &(*pp).(Struct)[instr.Field]

	case *ssa.Field:
		fr.env[instr] = fr.get(instr.X).(Struct)[instr.Field]

	case *ssa.IndexAddr:
		x := fr.get(instr.X)
		idx := asTerm(fr.get(instr.Index))
		var elems []Value
		switch x := x.(type) {
		case []Value:
			elems = x
		case *Value:
			if x == nil {
				m.rtPanic(fr, T.True, "invalid memory address or nil pointer dereference")
			}
			elems = (*x).(Array)
		default:
			panic(unsupported(fmt.Sprintf("IndexAddr on %T", x)))
		}
		idx = m.toIndex(idx, instr.Index.Type())
		m.rtPanic(fr, Not(Cmp(OpUlt, idx, BV(64, uint64(len(elems))))), "index out of range")
		if idx.IsConst() {
			p := &elems[idx.Val]
			if t, ok := (*p).(*Term); ok && t.W == 8 {
				// remember the extent so that unsafe.String/unsafe.Slice on &b[i] work
				m.sliceOf[p] = elems[idx.Val:cap(elems)]
			}
			fr.env[instr] = p
		} else {
			// loads fork on classes of equal elements; stores concretise the index
			fr.env[instr] = &SymElem{Elems: elems, Idx: idx}
		}

	case *ssa.Index:
		x := fr.get(instr.X)
		idx := m.toIndex(asTerm(fr.get(instr.Index)), instr.Index.Type())
		switch x := x.(type) {
		case Array:
			m.rtPanic(fr, Not(Cmp(OpUlt, idx, BV(64, uint64(len(x))))), "index out of range")
			if idx.IsConst() {
				fr.env[instr] = x[idx.Val]
			} else if scalarElems(x) {
				fr.env[instr] = loadSym(&SymElem{Elems: x, Idx: idx})
			} else {
				fr.env[instr] = m.loadClass(fr, &SymElem{Elems: x, Idx: idx})
			}
		case Str:
			fr.env[instr] = m.strIndex(fr, x, idx)
		default:
			panic(unsupported(fmt.Sprintf("Index on %T", x)))
		}

	case *ssa.Lookup:
		fr.env[instr] = m.lookup(fr, instr, fr.get(instr.X), fr.get(instr.Index))

	case *ssa.MapUpdate:
		mp := fr.get(instr.Map).(*Map)
		if mp == nil {
			m.rtPanic(fr, T.True, "assignment to entry in nil map")
		}
		m.mapInsert(fr, mp, fr.get(instr.Key), fr.get(instr.Value))

	case *ssa.TypeAssert:
		fr.env[instr] = m.typeAssert(fr, instr, fr.get(instr.X).(Iface))

	case *ssa.MakeClosure:
		var bindings []Value
		for _, b := range instr.Bindings {
			bindings = append(bindings, fr.get(b))
		}
		fr.env[instr] = &Closure{instr.Fn.(*ssa.Function), bindings}

	case *ssa.Phi:
		panic("phi outside block entry")

	case *ssa.Select:
		fr.env[instr] = m.selectOp(fr, instr)

	default:
		panic(unsupported(fmt.Sprintf("instruction %T", instr)))
	}
	return kNext
}

func scalarElems(e []Value) bool {
	if len(e) == 0 {
		return false
	}
	_, ok := e[0].(*Term)
	return ok
}

// toIndex normalises an index term to 64 bits.
func (m *Machine) toIndex(idx *Term, t types.Type) *Term {
	if idx.W == 64 {
		return idx
	}
	if isSigned(t) {
		return SExt(idx, 64)
	}
	return ZExt(idx, 64)
}

func loadSym(se *SymElem) Value {
	n := len(se.Elems)
	// constant tables: one comparison per run of equal values instead of one per element
	allConst := n > 8
	for _, e := range se.Elems {
		if t, ok := e.(*Term); !ok || !t.IsConst() {
			allConst = false
			break
		}
	}
	if allConst {
		r := se.Elems[n-1].(*Term)
		for i := n - 2; i >= 0; i-- {
			cur := se.Elems[i].(*Term)
			if cur == se.Elems[i+1].(*Term) {
				continue
			}
			// elements 0..i form (the end of) a run with value cur; idx <= i selects it
			r = Ite(Cmp(OpUlt, se.Idx, BV(64, uint64(i+1))), cur, r)
		}
		return r
	}
	r := se.Elems[n-1].(*Term)
	for i := n - 2; i >= 0; i-- {
		r = Ite(Eq(se.Idx, BV(64, uint64(i))), se.Elems[i].(*Term), r)
	}
	return r
}

func (m *Machine) load(fr *frame, p Value) Value {
	switch p := p.(type) {
	case *Value:
		if p == nil {
			m.rtPanic(fr, T.True, "invalid memory address or nil pointer dereference")
		}
		return copyVal(*p)
	case *SymElem:
		if scalarElems(p.Elems) {
			return loadSym(p)
		}
		return m.loadClass(fr, p)
	case **deferred:
		return *p
	}
	panic(unsupported(fmt.Sprintf("load through %T", p)))
}

func (m *Machine) store(fr *frame, p Value, v Value) {
	switch p := p.(type) {
	case *Value:
		if p == nil {
			m.rtPanic(fr, T.True, "invalid memory address or nil pointer dereference")
		}
		if m.inMerge {
			panic(mergeAbort{"store in merge region"})
		}
		*p = copyVal(v)
	case *SymElem:
		if m.inMerge {
			panic(mergeAbort{"store in merge region"})
		}
		vt, isT := v.(*Term)
		if !isT || !scalarElems(p.Elems) {
			i := m.concretize(p.Idx, "store-index@"+fr.where())
			p.Elems[i] = copyVal(v)
			return
		}
		for i := range p.Elems {
			p.Elems[i] = Ite(Eq(p.Idx, BV(64, uint64(i))), vt, p.Elems[i].(*Term))
		}
	case **deferred:
		*p = v.(*deferred)
	default:
		panic(unsupported(fmt.Sprintf("store through %T", p)))
	}
}

func (m *Machine) strIndex(fr *frame, s Str, idx *Term) Value {
	m.rtPanic(fr, Not(Cmp(OpUlt, idx, BV(64, uint64(s.Len())))), "index out of range")
	if idx.IsConst() {
		if s.IsConc() {
			return BV(8, uint64(s.S[idx.Val]))
		}
		return s.B[idx.Val]
	}
	b := s.Bytes()
	r := b[len(b)-1]
	for i := len(b) - 2; i >= 0; i-- {
		r = Ite(Eq(idx, BV(64, uint64(i))), b[i], r)
	}
	return r
}

func (m *Machine) prepareCall(fr *frame, call *ssa.CallCommon) (fn Value, args []Value) {
	v := fr.get(call.Value)
	if call.Method == nil {
		fn = v
	} else {
		recv := v.(Iface)
		if recv.T == nil {
			m.rtPanic(fr, T.True, "invalid memory address or nil pointer dereference (method on nil interface)")
		}
		if nf, ok := recv.V.(*NativeObj); ok {
			fn = nf.method(call.Method.Name())
		} else {
			f := m.Prog.LookupMethod(recv.T, call.Method.Pkg(), call.Method.Name())
			if f == nil {
				panic(unsupported(fmt.Sprintf("method %s not found for %s", call.Method.Name(), recv.T)))
			}
			fn = f
		}
		args = append(args, recv.V)
	}
	for _, a := range call.Args {
		args = append(args, fr.get(a))
	}
	return
}

// NativeObj is an engine-implemented object behind an interface.
type NativeObj struct {
	Name    string
	Methods map[string]func(m *Machine, fr *frame, args []Value) Value
	State   interface{}
}

func (o *NativeObj) method(name string) Value {
	f, ok := o.Methods[name]
	if !ok {
		panic(unsupported("native object " + o.Name + " has no method " + name))
	}
	return &NativeFn{Name: o.Name + "." + name, F: f}
}

func (m *Machine) typeAssert(fr *frame, instr *ssa.TypeAssert, itf Iface) Value {
	var v Value
	ok := false
	if itf.T != nil {
		if idst, isI := instr.AssertedType.Underlying().(*types.Interface); isI {
			if types.Implements(itf.T, idst) || (idst.NumMethods() == 0) {
				v = itf
				ok = true
			} else if m.implementsViaSSA(itf.T, idst) {
				v = itf
				ok = true
			}
		} else if types.Identical(itf.T, instr.AssertedType) {
			v = itf.V
			ok = true
		}
	}
	if !ok {
		if !instr.CommaOk {
			m.rtPanic(fr, T.True, fmt.Sprintf("interface conversion: %v is not %v", itf.T, instr.AssertedType))
		}
		v = zero(instr.AssertedType)
	}
	if instr.CommaOk {
		return Tuple{v, Bool(ok)}
	}
	return v
}

func (m *Machine) implementsViaSSA(t types.Type, i *types.Interface) bool {
	ms := m.Prog.MethodSets.MethodSet(t)
	for k := 0; k < i.NumMethods(); k++ {
		meth := i.Method(k)
		if ms.Lookup(meth.Pkg(), meth.Name()) == nil {
			return false
		}
	}
	return true
}

func (m *Machine) sliceOp(fr *frame, instr *ssa.Slice, x, lo, hi, max Value) Value {
	var length, capacity int
	switch x := x.(type) {
	case Str:
		length = x.Len()
		capacity = length
	case []Value:
		length = len(x)
		capacity = cap(x)
	case *Value:
		if x == nil {
			m.rtPanic(fr, T.True, "invalid memory address or nil pointer dereference")
		}
		length = len((*x).(Array))
		capacity = length
	default:
		panic(unsupported(fmt.Sprintf("slice of %T", x)))
	}
	_, isStr := x.(Str)
	l := BV(64, 0)
	if lo != nil {
		l = m.toIndex(asTerm(lo), instr.Low.Type())
	}
	h := BV(64, uint64(length))
	if hi != nil {
		h = m.toIndex(asTerm(hi), instr.High.Type())
	}
	mx := BV(64, uint64(capacity))
	if max != nil {
		mx = m.toIndex(asTerm(max), instr.Max.Type())
	}
	// 0 <= l <= h <= mx <= cap (strings: h <= len)
	upper := capacity
	if isStr {
		upper = length
	}
	bad := Or(Cmp(OpUlt, BV(64, uint64(upper)), mx), Or(Cmp(OpUlt, mx, h), Cmp(OpUlt, h, l)))
	m.rtPanic(fr, bad, "slice bounds out of range")
	li := int(m.concretize(l, "slice-lo@"+fr.where()))
	hi2 := int(m.concretize(h, "slice-hi@"+fr.where()))
	mi := int(m.concretize(mx, "slice-max@"+fr.where()))
	switch x := x.(type) {
	case Str:
		return x.slice(li, hi2)
	case []Value:
		if x == nil {
			return []Value(nil)
		}
		return x[li:hi2:mi]
	case *Value:
		return []Value((*x).(Array))[li:hi2:mi]
	}
	panic("unreachable")
}

func (m *Machine) panicString(v Value) string {
	itf, ok := v.(Iface)
	if !ok {
		return describe(v)
	}
	if itf.T == nil {
		return "nil"
	}
	if s, ok := itf.V.(Str); ok && s.IsConc() {
		return s.S
	}
	// error values: try Error()
	if f := m.Prog.LookupMethod(itf.T, nil, "Error"); f != nil {
		var res Value
		func() {
			defer func() {
				if r := recover(); r != nil {
					res = MkStr(fmt.Sprintf("<%s: Error() not evaluable>", itf.T))
				}
			}()
			res = m.call(nil, f, []Value{itf.V}, nil)
		}()
		if s, ok := res.(Str); ok && s.IsConc() {
			return s.S
		}
	}
	return itf.T.String() + " " + describe(itf.V)
}

var _ = token.ADD

// loadClass loads through a symbolic index into a table of non-scalar elements
// by forking on the classes of identical elements (one fork per distinct value
// rather than one per index).
func (m *Machine) loadClass(fr *frame, p *SymElem) Value {
	type class struct {
		rep  Value
		cond *Term
	}
	var classes []*class
	n := len(p.Elems)
	for i := 0; i < n; {
		j := i
		for j+1 < n && identicalValue(p.Elems[j+1], p.Elems[i]) {
			j++
		}
		// indices i..j hold identical values
		var c *Term
		if i == j {
			c = Eq(p.Idx, BV(64, uint64(i)))
		} else {
			c = And(Not(Cmp(OpUlt, p.Idx, BV(64, uint64(i)))), Cmp(OpUlt, p.Idx, BV(64, uint64(j+1))))
		}
		found := false
		for _, cl := range classes {
			if identicalValue(cl.rep, p.Elems[i]) {
				cl.cond = Or(cl.cond, c)
				found = true
				break
			}
		}
		if !found {
			classes = append(classes, &class{p.Elems[i], c})
		}
		i = j + 1
	}
	alts := make([]*Term, len(classes))
	for i, cl := range classes {
		alts[i] = cl.cond
	}
	k := m.chooseEx(alts, "table-class@"+fr.where(), true)
	return copyVal(classes[k].rep)
}

// identicalValue is a cheap syntactic identity used to group table entries.
func identicalValue(a, b Value) bool {
	switch x := a.(type) {
	case []Value:
		y, ok := b.([]Value)
		if !ok {
			return false
		}
		if x == nil || y == nil {
			return x == nil && y == nil
		}
		return len(x) == len(y) && cap(x) == cap(y) && (len(x) == 0 || &x[0] == &y[0])
	case Struct:
		y, ok := b.(Struct)
		if !ok || len(x) != len(y) {
			return false
		}
		for i := range x {
			if !identicalValue(x[i], y[i]) {
				return false
			}
		}
		return true
	case Array:
		y, ok := b.(Array)
		if !ok || len(x) != len(y) {
			return false
		}
		for i := range x {
			if !identicalValue(x[i], y[i]) {
				return false
			}
		}
		return true
	case *Closure:
		y, ok := b.(*Closure)
		return ok && x == y
	case *Map:
		y, ok := b.(*Map)
		return ok && x == y
	}
	return sameKeyObject(a, b)
}
