package sym

import (
	"fmt"
	"os"
	"strings"

	"golang.org/x/tools/go/packages"
	"golang.org/x/tools/go/ssa"
	"golang.org/x/tools/go/ssa/ssautil"
)

// GoEnv is the environment needed to load and build /repo offline.
func GoEnv() []string {
	env := os.Environ()
	out := env[:0:0]
	for _, e := range env {
		switch {
		case strings.HasPrefix(e, "GOFLAGS="), strings.HasPrefix(e, "GOPROXY="), strings.HasPrefix(e, "GOSUMDB="),
			strings.HasPrefix(e, "GOTOOLCHAIN="), strings.HasPrefix(e, "PATH="), strings.HasPrefix(e, "GOWORK="):
			continue
		}
		out = append(out, e)
	}
	out = append(out, "GOFLAGS=-mod=mod", "GOPROXY=off", "GOSUMDB=off", "GOTOOLCHAIN=local", "GOWORK=off",
		"PATH="+os.Getenv("PATH"))
	return out
}

// Load type-checks the given packages of the repository with the overlay applied
// and returns the SSA program (root packages built, dependencies built lazily).
func Load(repo string, overlay map[string][]byte, patterns []string, extraEnv []string) (*ssa.Program, []*ssa.Package, []*packages.Package, error) {
	cfg := &packages.Config{
		Mode:    packages.LoadAllSyntax,
		Dir:     repo,
		Env:     append(GoEnv(), extraEnv...),
		Overlay: overlay,
		Tests:   false,
	}
	initial, err := packages.Load(cfg, patterns...)
	if err != nil {
		return nil, nil, nil, err
	}
	var errs []string
	packages.Visit(initial, nil, func(p *packages.Package) {
		for _, e := range p.Errors {
			errs = append(errs, e.Error())
		}
	})
	if len(errs) > 0 {
		if len(errs) > 12 {
			errs = errs[:12]
		}
		return nil, nil, nil, fmt.Errorf("package errors:\n  %s", strings.Join(errs, "\n  "))
	}
	prog, pkgs := ssautil.AllPackages(initial, ssa.InstantiateGenerics)
	for _, p := range pkgs {
		if p != nil {
			p.Build()
		}
	}
	return prog, pkgs, initial, nil
}
