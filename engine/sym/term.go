// Package sym is a path-wise symbolic interpreter for go/ssa with an SMT back end.
package sym

import (
	"fmt"
	"math/bits"
	"strings"
)

// Op is a term operator.
type Op uint8

// Term operators.
const (
	OpConst Op = iota // bit-vector or bool constant (w==0 → bool)
	OpVar
	OpAdd
	OpSub
	OpMul
	OpUDiv
	OpSDiv
	OpURem
	OpSRem
	OpAnd
	OpOr
	OpXor
	OpShl
	OpLShr
	OpAShr
	OpNot // bvnot
	OpNeg
	OpExtract // val = hi<<8 | lo
	OpConcat
	OpZExt // to width w
	OpSExt // to width w
	OpIte
	OpEq
	OpUlt
	OpUle
	OpSlt
	OpSle
	OpBAnd // boolean and
	OpBOr
	OpBNot
	OpUF // uninterpreted function application, name = function name
)

var opNames = map[Op]string{
	OpAdd: "bvadd", OpSub: "bvsub", OpMul: "bvmul", OpUDiv: "bvudiv", OpSDiv: "bvsdiv",
	OpURem: "bvurem", OpSRem: "bvsrem", OpAnd: "bvand", OpOr: "bvor", OpXor: "bvxor",
	OpShl: "bvshl", OpLShr: "bvlshr", OpAShr: "bvashr", OpNot: "bvnot", OpNeg: "bvneg",
	OpConcat: "concat", OpIte: "ite", OpEq: "=", OpUlt: "bvult", OpUle: "bvule",
	OpSlt: "bvslt", OpSle: "bvsle", OpBAnd: "and", OpBOr: "or", OpBNot: "not",
}

// Term is a hash-consed SMT term of sort Bool (W==0) or (_ BitVec W), W ≤ 64.
type Term struct {
	ID   int
	Op   Op
	W    int
	Args []*Term
	Val  uint64
	Name string
}

type termKey struct {
	op      Op
	w       int
	val     uint64
	name    string
	a, b, c int
}

// Terms is the global term table.
type Terms struct {
	tab    map[termKey]*Term
	nextID int
	True   *Term
	False  *Term
	Vars   []*Term
	consts map[uint64]*Term // small cache for 64-bit consts
	hasUF  bool             // an uninterpreted function was used: models cannot be evaluated
}

// T is the process-wide term table.
var T = newTerms()

func newTerms() *Terms {
	t := &Terms{tab: map[termKey]*Term{}}
	t.True = t.mk(OpConst, 0, 1, "")
	t.False = t.mk(OpConst, 0, 0, "")
	return t
}

func (t *Terms) mk(op Op, w int, val uint64, name string, args ...*Term) *Term {
	k := termKey{op: op, w: w, val: val, name: name, a: -1, b: -1, c: -1}
	switch len(args) {
	case 0:
	case 1:
		k.a = args[0].ID
	case 2:
		k.a, k.b = args[0].ID, args[1].ID
	case 3:
		k.a, k.b, k.c = args[0].ID, args[1].ID, args[2].ID
	default:
		var sb strings.Builder
		sb.WriteString(name)
		for _, a := range args {
			fmt.Fprintf(&sb, ",%d", a.ID)
		}
		k.name = sb.String()
	}
	if x, ok := t.tab[k]; ok {
		return x
	}
	x := &Term{ID: t.nextID, Op: op, W: w, Val: val, Name: name, Args: args}
	t.nextID++
	t.tab[k] = x
	return x
}

func mask(w int) uint64 {
	if w >= 64 {
		return ^uint64(0)
	}
	return (uint64(1) << uint(w)) - 1
}

// BV returns a bit-vector constant.
func BV(w int, v uint64) *Term {
	if w <= 0 || w > 64 {
		panic(fmt.Sprintf("BV: bad width %d", w))
	}
	return T.mk(OpConst, w, v&mask(w), "")
}

// Bool returns a boolean constant.
func Bool(b bool) *Term {
	if b {
		return T.True
	}
	return T.False
}

// Var creates (or returns) a variable.
func Var(name string, w int) *Term {
	k := termKey{op: OpVar, w: w, name: name, a: -1, b: -1, c: -1}
	if x, ok := T.tab[k]; ok {
		return x
	}
	x := T.mk(OpVar, w, 0, name)
	T.Vars = append(T.Vars, x)
	return x
}

// IsConst reports whether t is a constant.
func (t *Term) IsConst() bool { return t.Op == OpConst }

// IsBool reports whether the term has sort Bool.
func (t *Term) IsBool() bool { return t.W == 0 }

// IsTrue / IsFalse test boolean constants.
func (t *Term) IsTrue() bool  { return t == T.True }
func (t *Term) IsFalse() bool { return t == T.False }

func sext(v uint64, w int) int64 {
	if w >= 64 {
		return int64(v)
	}
	sh := uint(64 - w)
	return int64(v<<sh) >> sh
}

// Signed returns the signed value of a constant term.
func (t *Term) Signed() int64 { return sext(t.Val, t.W) }

func checkW(a, b *Term) {
	if a.W != b.W {
		panic(fmt.Sprintf("term width mismatch: %d vs %d (%s / %s)", a.W, b.W, a, b))
	}
}

// Bin builds a binary bit-vector operation with folding.
func Bin(op Op, a, b *Term) *Term {
	if op != OpConcat {
		checkW(a, b)
	}
	w := a.W
	if a.IsConst() && b.IsConst() {
		x, y := a.Val, b.Val
		var r uint64
		switch op {
		case OpAdd:
			r = x + y
		case OpSub:
			r = x - y
		case OpMul:
			r = x * y
		case OpUDiv:
			if y == 0 {
				r = mask(w)
			} else {
				r = x / y
			}
		case OpURem:
			if y == 0 {
				r = x
			} else {
				r = x % y
			}
		case OpSDiv:
			sx, sy := sext(x, w), sext(y, w)
			if sy == 0 {
				if sx < 0 {
					r = 1
				} else {
					r = mask(w)
				}
			} else if sy == -1 {
				r = uint64(-sx)
			} else {
				r = uint64(sx / sy)
			}
		case OpSRem:
			sx, sy := sext(x, w), sext(y, w)
			if sy == 0 {
				r = x
			} else if sy == -1 {
				r = 0
			} else {
				r = uint64(sx % sy)
			}
		case OpAnd:
			r = x & y
		case OpOr:
			r = x | y
		case OpXor:
			r = x ^ y
		case OpShl:
			if y >= uint64(w) {
				r = 0
			} else {
				r = x << y
			}
		case OpLShr:
			if y >= uint64(w) {
				r = 0
			} else {
				r = x >> y
			}
		case OpAShr:
			sx := sext(x, w)
			if y >= uint64(w) {
				y = uint64(w - 1)
			}
			r = uint64(sx >> y)
		case OpConcat:
			return BV(a.W+b.W, x<<uint(b.W)|y)
		default:
			panic("Bin: bad op")
		}
		return BV(w, r)
	}
	switch op {
	case OpAdd:
		if a.IsConst() && a.Val == 0 {
			return b
		}
		if b.IsConst() && b.Val == 0 {
			return a
		}
		if a.IsConst() { // canonical: const on the right
			a, b = b, a
		}
		// (x + c1) + c2
		if b.IsConst() && a.Op == OpAdd && a.Args[1].IsConst() {
			return Bin(OpAdd, a.Args[0], BV(w, a.Args[1].Val+b.Val))
		}
	case OpSub:
		if b.IsConst() && b.Val == 0 {
			return a
		}
		if a == b {
			return BV(w, 0)
		}
		if b.IsConst() {
			return Bin(OpAdd, a, BV(w, -b.Val))
		}
	case OpMul:
		if a.IsConst() {
			a, b = b, a
		}
		if b.IsConst() {
			if b.Val == 0 {
				return b
			}
			if b.Val == 1 {
				return a
			}
		}
	case OpAnd:
		if a.IsConst() {
			a, b = b, a
		}
		if b.IsConst() {
			if b.Val == 0 {
				return b
			}
			if b.Val == mask(w) {
				return a
			}
			// (zext x) & m where m covers all of x's bits
			if a.Op == OpZExt && b.Val&mask(a.Args[0].W) == mask(a.Args[0].W) {
				return a
			}
		}
		if a == b {
			return a
		}
	case OpOr:
		if a.IsConst() {
			a, b = b, a
		}
		if b.IsConst() {
			if b.Val == 0 {
				return a
			}
			if b.Val == mask(w) {
				return b
			}
		}
		if a == b {
			return a
		}
	case OpXor:
		if a.IsConst() {
			a, b = b, a
		}
		if b.IsConst() && b.Val == 0 {
			return a
		}
		if a == b {
			return BV(w, 0)
		}
	case OpShl, OpLShr, OpAShr:
		if b.IsConst() && b.Val == 0 {
			return a
		}
		if b.IsConst() && b.Val >= uint64(w) && op != OpAShr {
			return BV(w, 0)
		}
		if a.IsConst() && a.Val == 0 {
			return a
		}
		// (zext8 x) >> k with k >= 8 → 0
		if op == OpLShr && b.IsConst() && a.Op == OpZExt && b.Val >= uint64(a.Args[0].W) {
			return BV(w, 0)
		}
	case OpUDiv, OpSDiv:
		if b.IsConst() && b.Val == 1 {
			return a
		}
	case OpConcat:
		return T.mk(OpConcat, a.W+b.W, 0, "", a, b)
	}
	return T.mk(op, w, 0, "", a, b)
}

// Un builds bvnot / bvneg.
func Un(op Op, a *Term) *Term {
	if a.IsConst() {
		if op == OpNot {
			return BV(a.W, ^a.Val)
		}
		return BV(a.W, -a.Val)
	}
	if a.Op == op {
		return a.Args[0]
	}
	return T.mk(op, a.W, 0, "", a)
}

// Extract returns bits hi..lo of a.
func Extract(a *Term, hi, lo int) *Term {
	w := hi - lo + 1
	if lo == 0 && w == a.W {
		return a
	}
	if a.IsConst() {
		return BV(w, a.Val>>uint(lo))
	}
	switch a.Op {
	case OpZExt, OpSExt:
		in := a.Args[0]
		if hi < in.W {
			return Extract(in, hi, lo)
		}
		if a.Op == OpZExt && lo >= in.W {
			return BV(w, 0)
		}
		if lo == 0 && a.Op == OpZExt {
			return ZExt(in, w)
		}
		if lo == 0 && a.Op == OpSExt {
			return SExt(in, w)
		}
	case OpExtract:
		ilo := int(a.Val & 0xff)
		return Extract(a.Args[0], hi+ilo, lo+ilo)
	case OpAnd, OpOr, OpXor:
		if lo == 0 {
			return Bin(a.Op, Extract(a.Args[0], hi, 0), Extract(a.Args[1], hi, 0))
		}
	case OpIte:
		if a.Args[1].IsConst() || a.Args[2].IsConst() {
			return Ite(a.Args[0], Extract(a.Args[1], hi, lo), Extract(a.Args[2], hi, lo))
		}
	}
	return T.mk(OpExtract, w, uint64(hi)<<8|uint64(lo), "", a)
}

// ZExt zero-extends to width w.
func ZExt(a *Term, w int) *Term {
	if w == a.W {
		return a
	}
	if w < a.W {
		return Extract(a, w-1, 0)
	}
	if a.IsConst() {
		return BV(w, a.Val)
	}
	if a.Op == OpZExt {
		return ZExt(a.Args[0], w)
	}
	if a.Op == OpIte && (a.Args[1].IsConst() || a.Args[2].IsConst()) {
		return Ite(a.Args[0], ZExt(a.Args[1], w), ZExt(a.Args[2], w))
	}
	return T.mk(OpZExt, w, 0, "", a)
}

// SExt sign-extends to width w.
func SExt(a *Term, w int) *Term {
	if w == a.W {
		return a
	}
	if w < a.W {
		return Extract(a, w-1, 0)
	}
	if a.IsConst() {
		return BV(w, uint64(sext(a.Val, a.W)))
	}
	if a.Op == OpSExt {
		return SExt(a.Args[0], w)
	}
	if a.Op == OpZExt { // zext then sext = zext (top bit is 0)
		return ZExt(a.Args[0], w)
	}
	if a.Op == OpIte && (a.Args[1].IsConst() || a.Args[2].IsConst()) {
		return Ite(a.Args[0], SExt(a.Args[1], w), SExt(a.Args[2], w))
	}
	return T.mk(OpSExt, w, 0, "", a)
}

// Ite builds if-then-else for bool or bit-vector branches.
func Ite(c, a, b *Term) *Term {
	if c.IsTrue() {
		return a
	}
	if c.IsFalse() {
		return b
	}
	if a == b {
		return a
	}
	if a.W != b.W {
		panic("Ite: width mismatch")
	}
	if a.W == 0 {
		if a.IsTrue() && b.IsFalse() {
			return c
		}
		if a.IsFalse() && b.IsTrue() {
			return Not(c)
		}
		if a.IsTrue() {
			return Or(c, b)
		}
		if a.IsFalse() {
			return And(Not(c), b)
		}
		if b.IsTrue() {
			return Or(Not(c), a)
		}
		if b.IsFalse() {
			return And(c, a)
		}
	}
	if c.Op == OpBNot {
		return Ite(c.Args[0], b, a)
	}
	return T.mk(OpIte, a.W, 0, "", c, a, b)
}

// Eq builds equality over same-sort terms.
func Eq(a, b *Term) *Term {
	if a == b {
		return T.True
	}
	if a.W != b.W {
		panic(fmt.Sprintf("Eq: sort mismatch %d vs %d", a.W, b.W))
	}
	if a.IsConst() && b.IsConst() {
		return Bool(a.Val == b.Val)
	}
	if a.W == 0 {
		if a.IsTrue() {
			return b
		}
		if b.IsTrue() {
			return a
		}
		if a.IsFalse() {
			return Not(b)
		}
		if b.IsFalse() {
			return Not(a)
		}
	}
	if a.IsConst() {
		a, b = b, a
	}
	if b.IsConst() {
		switch a.Op {
		case OpIte:
			// ite(c, k1, k2) == k
			if a.Args[1].IsConst() || a.Args[2].IsConst() {
				return Ite(a.Args[0], Eq(a.Args[1], b), Eq(a.Args[2], b))
			}
		case OpZExt:
			in := a.Args[0]
			if b.Val > mask(in.W) {
				return T.False
			}
			return Eq(in, BV(in.W, b.Val))
		case OpAdd:
			if a.Args[1].IsConst() {
				return Eq(a.Args[0], BV(a.W, b.Val-a.Args[1].Val))
			}
		}
	}
	if a.ID > b.ID && !b.IsConst() {
		a, b = b, a
	}
	return T.mk(OpEq, 0, 0, "", a, b)
}

// Cmp builds an ordering comparison.
func Cmp(op Op, a, b *Term) *Term {
	checkW(a, b)
	if a.IsConst() && b.IsConst() {
		switch op {
		case OpUlt:
			return Bool(a.Val < b.Val)
		case OpUle:
			return Bool(a.Val <= b.Val)
		case OpSlt:
			return Bool(a.Signed() < b.Signed())
		case OpSle:
			return Bool(a.Signed() <= b.Signed())
		}
	}
	if a == b {
		return Bool(op == OpUle || op == OpSle)
	}
	switch op {
	case OpUlt:
		if b.IsConst() && b.Val == 0 {
			return T.False
		}
		// zext(x) < k with k > max(x)
		if a.Op == OpZExt && b.IsConst() && b.Val > mask(a.Args[0].W) {
			return T.True
		}
	case OpUle:
		if a.IsConst() && a.Val == 0 {
			return T.True
		}
		if b.IsConst() && b.Val == mask(b.W) {
			return T.True
		}
	case OpSlt:
		// zext(x) <s k, k positive beyond range
		if a.Op == OpZExt && b.IsConst() && b.Signed() > int64(mask(a.Args[0].W)) {
			return T.True
		}
		if a.Op == OpZExt && b.IsConst() && b.Signed() <= 0 {
			return T.False
		}
	case OpSle:
		if a.IsConst() && a.Signed() <= 0 && b.Op == OpZExt {
			return T.True
		}
	}
	if a.Op == OpIte && b.IsConst() && a.Args[1].IsConst() && a.Args[2].IsConst() {
		return Ite(a.Args[0], Cmp(op, a.Args[1], b), Cmp(op, a.Args[2], b))
	}
	return T.mk(op, 0, 0, "", a, b)
}

// Not is boolean negation.
func Not(a *Term) *Term {
	if a.W != 0 {
		panic("Not: non-bool")
	}
	if a.IsTrue() {
		return T.False
	}
	if a.IsFalse() {
		return T.True
	}
	if a.Op == OpBNot {
		return a.Args[0]
	}
	return T.mk(OpBNot, 0, 0, "", a)
}

// And is boolean conjunction.
func And(a, b *Term) *Term {
	if a.IsFalse() || b.IsFalse() {
		return T.False
	}
	if a.IsTrue() {
		return b
	}
	if b.IsTrue() {
		return a
	}
	if a == b {
		return a
	}
	if Not(a) == b {
		return T.False
	}
	return T.mk(OpBAnd, 0, 0, "", a, b)
}

// Or is boolean disjunction.
func Or(a, b *Term) *Term {
	if a.IsTrue() || b.IsTrue() {
		return T.True
	}
	if a.IsFalse() {
		return b
	}
	if b.IsFalse() {
		return a
	}
	if a == b {
		return a
	}
	if Not(a) == b {
		return T.True
	}
	return T.mk(OpBOr, 0, 0, "", a, b)
}

// AndAll folds And.
func AndAll(ts ...*Term) *Term {
	r := T.True
	for _, t := range ts {
		r = And(r, t)
	}
	return r
}

// UF applies an uninterpreted function of result width w (0 = Bool).
func UF(name string, w int, args ...*Term) *Term {
	T.hasUF = true
	return T.mk(OpUF, w, 0, name, args...)
}

func sortStr(w int) string {
	if w == 0 {
		return "Bool"
	}
	return fmt.Sprintf("(_ BitVec %d)", w)
}

func constStr(t *Term) string {
	if t.W == 0 {
		if t.Val != 0 {
			return "true"
		}
		return "false"
	}
	if t.W%4 == 0 {
		return fmt.Sprintf("#x%0*x", t.W/4, t.Val)
	}
	return fmt.Sprintf("#b%0*b", t.W, t.Val)
}

// String renders a short human-readable form (depth limited).
func (t *Term) String() string { return t.str(4) }

func (t *Term) str(d int) string {
	switch t.Op {
	case OpConst:
		if t.W == 0 {
			return constStr(t)
		}
		return fmt.Sprintf("%d:%d", t.Val, t.W)
	case OpVar:
		return t.Name
	}
	if d == 0 {
		return fmt.Sprintf("t%d", t.ID)
	}
	var parts []string
	for _, a := range t.Args {
		parts = append(parts, a.str(d-1))
	}
	n := opNames[t.Op]
	switch t.Op {
	case OpExtract:
		n = fmt.Sprintf("extract[%d:%d]", t.Val>>8, t.Val&0xff)
	case OpZExt:
		n = fmt.Sprintf("zext%d", t.W)
	case OpSExt:
		n = fmt.Sprintf("sext%d", t.W)
	case OpUF:
		n = t.Name
	}
	return "(" + n + " " + strings.Join(parts, " ") + ")"
}

// popcount helper used by the interpreter for math/bits intrinsics on constants.
func popcount(v uint64) int { return bits.OnesCount64(v) }

// Eval evaluates t under a model (variable name → value). Unknown vars are 0.
func Eval(t *Term, model map[string]uint64, memo map[*Term]uint64) uint64 {
	if v, ok := memo[t]; ok {
		return v
	}
	var r uint64
	switch t.Op {
	case OpConst:
		r = t.Val
	case OpVar:
		r = model[t.Name] & maskB(t.W)
	case OpUF:
		r = model["uf:"+t.Name+fmt.Sprint(t.ID)] // not evaluable; callers avoid
	case OpNot:
		r = ^Eval(t.Args[0], model, memo) & mask(t.W)
	case OpNeg:
		r = -Eval(t.Args[0], model, memo) & mask(t.W)
	case OpExtract:
		lo := uint(t.Val & 0xff)
		r = (Eval(t.Args[0], model, memo) >> lo) & mask(t.W)
	case OpZExt:
		r = Eval(t.Args[0], model, memo)
	case OpSExt:
		r = uint64(sext(Eval(t.Args[0], model, memo), t.Args[0].W)) & mask(t.W)
	case OpIte:
		if Eval(t.Args[0], model, memo) != 0 {
			r = Eval(t.Args[1], model, memo)
		} else {
			r = Eval(t.Args[2], model, memo)
		}
	case OpEq:
		r = b2u(Eval(t.Args[0], model, memo) == Eval(t.Args[1], model, memo))
	case OpUlt, OpUle, OpSlt, OpSle:
		x := BVc(t.Args[0].W, Eval(t.Args[0], model, memo))
		y := BVc(t.Args[1].W, Eval(t.Args[1], model, memo))
		r = Cmp(t.Op, x, y).Val
	case OpBAnd:
		r = b2u(Eval(t.Args[0], model, memo) != 0 && Eval(t.Args[1], model, memo) != 0)
	case OpBOr:
		r = b2u(Eval(t.Args[0], model, memo) != 0 || Eval(t.Args[1], model, memo) != 0)
	case OpBNot:
		r = b2u(Eval(t.Args[0], model, memo) == 0)
	default:
		x := BVc(t.Args[0].W, Eval(t.Args[0], model, memo))
		y := BVc(t.Args[1].W, Eval(t.Args[1], model, memo))
		r = Bin(t.Op, x, y).Val
	}
	memo[t] = r
	return r
}

func maskB(w int) uint64 {
	if w == 0 {
		return 1
	}
	return mask(w)
}

// BVc is BV for possibly-bool width.
func BVc(w int, v uint64) *Term {
	if w == 0 {
		return Bool(v != 0)
	}
	return BV(w, v)
}

func b2u(b bool) uint64 {
	if b {
		return 1
	}
	return 0
}
