package sym

import "fmt"

const (
	hardAllocLimit = 1 << 24 // elements; larger allocations are not modelled
	sizeEnumLimit  = 16      // sizes up to this are enumerated exactly
)

// allocCheck enforces the harness' allocation limit (vnd.AllocLimit) on a
// non-negative size term: a size that can exceed the limit is a violation.
func (m *Machine) allocCheck(fr *frame, size *Term) {
	if size.IsConst() {
		if m.allocLimit > 0 && size.Val > uint64(m.allocLimit) {
			_, model := m.S.Check(m.pc, nil, m.inputVars())
			m.recordViolation("alloc", fmt.Sprintf("allocation of %d elements exceeds the declared limit %d", size.Val, m.allocLimit), fr.where(), model)
			panic(pathEnd{"done", "allocation above limit"})
		}
		if size.Val > hardAllocLimit {
			panic(unsupported(fmt.Sprintf("allocation of %d elements (> 2^24) at %s", size.Val, fr.where())))
		}
		return
	}
	if m.inMerge {
		panic(mergeAbort{"symbolic allocation in merge region"})
	}
	if m.allocLimit > 0 {
		over := Cmp(OpUlt, BV(64, uint64(m.allocLimit)), size)
		r, model := m.S.Check(m.pc, over, m.inputVars())
		switch r {
		case Sat:
			m.recordViolation("alloc", fmt.Sprintf("allocation size can exceed the declared limit %d", m.allocLimit), fr.where(), model)
		case Unknown:
			m.unknownAsserts = append(m.unknownAsserts, "allocation limit at "+fr.where())
		}
		m.assume(Not(over))
		if rr, _ := m.S.Check(m.pc, nil, nil); rr == Unsat {
			panic(pathEnd{"done", "allocation always above limit"})
		}
		return
	}
	over := Cmp(OpUlt, BV(64, hardAllocLimit), size)
	if r, _ := m.S.Check(m.pc, over, nil); r != Unsat {
		m.sizeCut++
		m.assume(Not(over))
		if rr, _ := m.S.Check(m.pc, nil, nil); rr == Unsat {
			panic(unsupported("allocation always above 2^24 elements at " + fr.where()))
		}
	}
}

// concretizeSize forks over the values of an allocation size: values up to
// sizeEnumLimit exactly, larger ones by the smallest and the largest feasible value.
func (m *Machine) concretizeSize(t *Term, site string) int64 {
	if t.IsConst() {
		return t.Signed()
	}
	if m.pos < len(m.prefix) {
		return m.concretize(t, site)
	}
	big := Cmp(OpUlt, BV(64, sizeEnumLimit), t)
	r, _ := m.S.Check(m.pc, big, nil)
	if r == Unsat {
		return m.concretize(t, site)
	}
	// representatives: min and max feasible above the enumeration limit
	probe := Var("concretize!probe", t.W)
	lo, hi := uint64(sizeEnumLimit+1), uint64(hardAllocLimit)
	if m.allocLimit > 0 {
		hi = uint64(m.allocLimit)
	}
	// the large representative is capped: that the size cannot exceed the limit was
	// decided symbolically by allocCheck, the representative only has to be "large"
	full := hi
	if hi > 4096 {
		hi = 4096
	}
	feasible := func(a, b uint64) (uint64, bool) {
		q := And(Eq(probe, t), And(Not(Cmp(OpUlt, t, BV(64, a))), Not(Cmp(OpUlt, BV(64, b), t))))
		rr, model := m.S.Check(m.pc, q, []*Term{probe})
		if rr != Sat {
			return 0, false
		}
		return model[probe.Name], true
	}
	var reps []int64
	if v, ok := feasible(lo, hi); ok {
		// bisect for the maximum
		maxv := v
		a, b := v, hi
		for a < b {
			mid := a + (b-a+1)/2
			if x, ok := feasible(mid, b); ok {
				maxv = x
				a = x
			} else {
				b = mid - 1
			}
		}
		reps = append(reps, int64(maxv))
		// and the minimum
		minv := v
		a, b = lo, v
		for a < b {
			mid := a + (b-a)/2
			if x, ok := feasible(a, mid); ok {
				minv = x
				b = x
			} else {
				a = mid + 1
			}
		}
		if minv != maxv {
			reps = append(reps, int64(minv))
		}
	} else if v, ok := feasible(lo, full); ok {
		reps = append(reps, int64(v)) // only sizes above the cap are feasible: take one
	}
	m.sizeAbstracted++
	// small values: enumerate exactly through the generic mechanism, restricted to <= limit
	var small []int64
	{
		var excl []*Term
		for len(small) <= sizeEnumLimit+1 {
			q := And(Eq(probe, t), Not(big))
			for _, e := range excl {
				q = And(q, e)
			}
			rr, model := m.S.Check(m.pc, q, []*Term{probe})
			if rr != Sat {
				break
			}
			v := model[probe.Name]
			small = append(small, int64(v))
			excl = append(excl, Not(Eq(t, BV(t.W, v))))
		}
	}
	all := append(small, reps...)
	if len(all) == 0 {
		panic(pathEnd{"infeasible", "no feasible size at " + site})
	}
	for _, v := range all[1:] {
		p := append(append([]int64{}, m.taken...), v)
		m.work = append(m.work, p)
	}
	if len(all) > 1 {
		m.St.ForkSites[site] += len(all) - 1
	}
	v := all[0]
	m.taken = append(m.taken, v)
	m.St.Decisions++
	m.addPC(Eq(t, BV(t.W, uint64(v))))
	return v
}
