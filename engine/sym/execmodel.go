package sym

import (
	"go/types"
	"strconv"
	"strings"
)

// Environment model for child processes (os/exec). The engine cannot run a child;
// it models the three fixed test children the harnesses use:
//
//	sh -c 'exit N'                                   → exit status N
//	sh -c 'test $# -eq 1 && test "$1" = "$VERIF_EXPECT"' sh ARGS...
//	                                                 → 0 iff exactly one ARG equal to VERIF_EXPECT in cmd.Env, else 1
//	anything else                                    → unsupported
//
// Natively the real /bin/sh runs, so a replay exercises the real process plumbing.
// ExecArgCheckPath is the script file the argument-check child is started from.
const ExecArgCheckPath = "/tmp/verif-argcheck.sh"

const execArgCheckScript = `test $# -eq 1 && test "$1" = "$VERIF_EXPECT"`

func init() {
	reg("os/exec.Command", func(m *Machine, fr *frame, a []Value) Value {
		pkg := m.Prog.ImportedPackage("os/exec")
		ct := pkg.Type("Cmd").Type()
		cell := new(Value)
		*cell = zero(ct)
		st := (*cell).(Struct)
		s := ct.Underlying().(*types.Struct)
		args := []Value{a[0]}
		if rest, ok := a[1].([]Value); ok {
			args = append(args, rest...)
		}
		for i := 0; i < s.NumFields(); i++ {
			switch s.Field(i).Name() {
			case "Path":
				st[i] = a[0]
			case "Args":
				st[i] = args
			}
		}
		return cell
	})
	reg("(*os/exec.Cmd).Start", func(m *Machine, fr *frame, a []Value) Value {
		m.trace = append(m.trace, Event{Name: "exec.Start", Args: []Value{a[0]}})
		// give the child a Process so that cmd.Process.Pid is valid
		cmd := a[0].(*Value)
		ct := m.Prog.ImportedPackage("os/exec").Type("Cmd").Type().Underlying().(*types.Struct)
		for i := 0; i < ct.NumFields(); i++ {
			if ct.Field(i).Name() == "Process" {
				pc := new(Value)
				*pc = zero(deref(ct.Field(i).Type()))
				(*cmd).(Struct)[i] = pc
			}
		}
		return Iface{}
	})
	reg("(*os/exec.Cmd).Wait", func(m *Machine, fr *frame, a []Value) Value {
		cmd := a[0].(*Value)
		ct := m.Prog.ImportedPackage("os/exec").Type("Cmd").Type().Underlying().(*types.Struct)
		var args, env []Value
		for i := 0; i < ct.NumFields(); i++ {
			switch ct.Field(i).Name() {
			case "Args":
				args, _ = (*cmd).(Struct)[i].([]Value)
			case "Env":
				env, _ = (*cmd).(Struct)[i].([]Value)
			}
		}
		code := m.execModel(fr, args, env)
		if code.IsConst() && code.Val == 0 {
			return Iface{}
		}
		// the exit code may be symbolic (argument comparison): fork on zero / non-zero
		if !code.IsConst() {
			if m.branch(Eq(code, BV(64, 0)), "child exit status") {
				return Iface{}
			}
		}
		// *exec.ExitError{ProcessState: &os.ProcessState{status: code<<8}}
		ospkg := m.Prog.ImportedPackage("os")
		pst := ospkg.Type("ProcessState").Type()
		ps := new(Value)
		*ps = zero(pst)
		pss := pst.Underlying().(*types.Struct)
		for i := 0; i < pss.NumFields(); i++ {
			if pss.Field(i).Name() == "status" {
				(*ps).(Struct)[i] = ZExt(Extract(Bin(OpShl, code, BV(64, 8)), 31, 0), widthOf(pss.Field(i).Type()))
			}
		}
		eet := m.Prog.ImportedPackage("os/exec").Type("ExitError").Type()
		ee := new(Value)
		*ee = zero(eet)
		ees := eet.Underlying().(*types.Struct)
		for i := 0; i < ees.NumFields(); i++ {
			if ees.Field(i).Name() == "ProcessState" {
				(*ee).(Struct)[i] = ps
			}
		}
		return Iface{T: types.NewPointer(eet), V: ee}
	})
	reg("syscall.Kill", func(m *Machine, fr *frame, a []Value) Value { return Iface{} })
}

func (m *Machine) execModel(fr *frame, args, env []Value) *Term {
	str := func(v Value) (Str, bool) { s, ok := v.(Str); return s, ok }
	if len(args) >= 3 {
		a0, _ := str(args[0])
		a1, _ := str(args[1])
		a2, ok2 := str(args[2])
		if a0.IsConc() && a0.S == "sh" && a1.IsConc() && a1.S == "-c" && ok2 && a2.IsConc() {
			script := a2.S
			if strings.HasPrefix(script, "exit ") && len(args) == 3 {
				if n, err := strconv.Atoi(strings.TrimPrefix(script, "exit ")); err == nil {
					return BV(64, uint64(n&0xff))
				}
			}
			if false {
				pos := args[4:]
				if len(pos) != 1 {
					return BV(64, 1)
				}
				var expect Str
				found := false
				for _, e := range env {
					es, _ := str(e)
					const k = "VERIF_EXPECT="
					if es.Len() >= len(k) && es.slice(0, len(k)).IsConc() && es.slice(0, len(k)).S == k {
						expect = es.slice(len(k), es.Len())
						found = true
					}
				}
				if !found {
					return BV(64, 1)
				}
				got, _ := str(pos[0])
				return Ite(strEq(got, expect), BV(64, 0), BV(64, 1))
			}
		}
	}
	if len(args) >= 2 {
		a0, _ := str(args[0])
		a1, _ := str(args[1])
		if a0.IsConc() && a0.S == "sh" && a1.IsConc() && a1.S == ExecArgCheckPath {
			pos := args[2:]
			if len(pos) != 1 {
				return BV(64, 1)
			}
			var expect Str
			found := false
			for _, e := range env {
				es, _ := str(e)
				const k = "VERIF_EXPECT="
				if es.Len() >= len(k) && es.slice(0, len(k)).IsConc() && es.slice(0, len(k)).S == k {
					expect = es.slice(len(k), es.Len())
					found = true
				}
			}
			if !found {
				return BV(64, 1)
			}
			got, _ := str(pos[0])
			return Ite(strEq(got, expect), BV(64, 0), BV(64, 1))
		}
	}
	panic(unsupported("os/exec: child process not covered by the environment model"))
}
