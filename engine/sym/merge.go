package sym

import (
	"go/token"
	"go/types"

	"golang.org/x/tools/go/ssa"
)

// mergeAbort is thrown when a speculative region merge cannot be completed.
type mergeAbort struct{ why string }

type pdomInfo struct {
	ipdom map[*ssa.BasicBlock]*ssa.BasicBlock // nil entry → virtual exit
	ok    map[*ssa.BasicBlock]bool            // block reaches exit
}

// postdom computes immediate post-dominators (Cooper/Harvey/Kennedy on the reverse CFG).
func (m *Machine) postdom(fn *ssa.Function) *pdomInfo {
	if pi, ok := m.postdoms[fn]; ok {
		return pi
	}
	n := len(fn.Blocks)
	// reverse post-order on the reverse graph from virtual exit (index n)
	succs := func(i int) []int { // successors in reverse graph = preds in CFG
		if i == n {
			var ex []int
			for _, b := range fn.Blocks {
				if len(b.Succs) == 0 {
					ex = append(ex, b.Index)
				}
			}
			return ex
		}
		var r []int
		for _, p := range fn.Blocks[i].Preds {
			r = append(r, p.Index)
		}
		return r
	}
	visited := make([]bool, n+1)
	var order []int // post-order
	var dfs func(i int)
	dfs = func(i int) {
		visited[i] = true
		for _, s := range succs(i) {
			if !visited[s] {
				dfs(s)
			}
		}
		order = append(order, i)
	}
	dfs(n)
	rpoNum := make([]int, n+1)
	for i := range rpoNum {
		rpoNum[i] = -1
	}
	for k, b := range order {
		rpoNum[b] = k // larger = earlier in RPO
	}
	idom := make([]int, n+1)
	for i := range idom {
		idom[i] = -1
	}
	idom[n] = n
	intersect := func(a, b int) int {
		for a != b {
			for rpoNum[a] < rpoNum[b] {
				a = idom[a]
			}
			for rpoNum[b] < rpoNum[a] {
				b = idom[b]
			}
		}
		return a
	}
	changed := true
	for changed {
		changed = false
		for k := len(order) - 2; k >= 0; k-- { // RPO, skipping the root
			b := order[k]
			// predecessors in reverse graph = successors in CFG (plus exit for exit blocks)
			var preds []int
			if len(fn.Blocks[b].Succs) == 0 {
				preds = append(preds, n)
			}
			for _, s := range fn.Blocks[b].Succs {
				preds = append(preds, s.Index)
			}
			newIdom := -1
			for _, p := range preds {
				if idom[p] == -1 {
					continue
				}
				if newIdom == -1 {
					newIdom = p
				} else {
					newIdom = intersect(p, newIdom)
				}
			}
			if newIdom != -1 && idom[b] != newIdom {
				idom[b] = newIdom
				changed = true
			}
		}
	}
	pi := &pdomInfo{ipdom: map[*ssa.BasicBlock]*ssa.BasicBlock{}, ok: map[*ssa.BasicBlock]bool{}}
	for _, b := range fn.Blocks {
		if idom[b.Index] == -1 {
			continue
		}
		pi.ok[b] = true
		if idom[b.Index] != n {
			pi.ipdom[b] = fn.Blocks[idom[b.Index]]
		}
	}
	m.postdoms[fn] = pi
	return pi
}

type regionInfo struct {
	ok    bool
	join  *ssa.BasicBlock
	order []*ssa.BasicBlock // topological order of region blocks
}

func (m *Machine) instrMergeable(instr ssa.Instruction) bool {
	switch in := instr.(type) {
	case *ssa.BinOp, *ssa.Phi, *ssa.FieldAddr, *ssa.Field, *ssa.IndexAddr, *ssa.Index,
		*ssa.Convert, *ssa.ChangeType, *ssa.ChangeInterface, *ssa.MakeInterface, *ssa.Extract,
		*ssa.Jump, *ssa.If, *ssa.DebugRef, *ssa.Lookup, *ssa.Slice, *ssa.MakeClosure:
		return true
	case *ssa.UnOp:
		return in.Op != token.ARROW
	case *ssa.TypeAssert:
		return true
	case *ssa.Call:
		if in.Call.IsInvoke() {
			return false
		}
		switch f := in.Call.Value.(type) {
		case *ssa.Builtin:
			switch f.Name() {
			case "len", "cap", "min", "max":
				return true
			}
			return false
		case *ssa.Function:
			return m.isPureFn(f, 0)
		}
		return false
	}
	return false
}

var pureIntrinsics = map[string]bool{
	"reflect.DeepEqual": true, "strings.Index": true, "bytes.Equal": true, "strings.Compare": true,
	"internal/bytealg.Equal": true, "internal/bytealg.CountString": true, "internal/bytealg.Count": true,
	"internal/bytealg.Compare": true, "internal/bytealg.CompareString": true,
}

func (m *Machine) isPureFn(f *ssa.Function, depth int) bool {
	if v, ok := m.pureCache[f]; ok {
		return v
	}
	name := fnKey(f)
	if _, isIntr := intrinsics[name]; isIntr {
		return pureIntrinsics[name]
	}
	if depth > 4 {
		return false
	}
	if f.Blocks == nil && f.Pkg != nil {
		f.Pkg.Build()
	}
	if f.Blocks == nil {
		return false
	}
	if m.pureCache == nil {
		m.pureCache = map[*ssa.Function]bool{}
	}
	m.pureCache[f] = false // recursion guard
	pure := true
	for _, b := range f.Blocks {
		for _, in := range b.Instrs {
			switch in := in.(type) {
			case *ssa.Return, *ssa.Alloc:
				if a, ok := in.(*ssa.Alloc); ok && !a.Heap {
					pure = false // local cell writes are stores
				}
			case *ssa.Store, *ssa.MapUpdate, *ssa.Send, *ssa.Go, *ssa.Defer, *ssa.Select, *ssa.Panic, *ssa.RunDefers, *ssa.MakeMap, *ssa.MakeSlice, *ssa.MakeChan, *ssa.Range, *ssa.Next:
				pure = false
			default:
				if !m.instrMergeableIn(in, depth+1) {
					pure = false
				}
			}
			if !pure {
				break
			}
		}
		if !pure {
			break
		}
	}
	m.pureCache[f] = pure
	return pure
}

func (m *Machine) instrMergeableIn(instr ssa.Instruction, depth int) bool {
	if c, ok := instr.(*ssa.Call); ok {
		if c.Call.IsInvoke() {
			return false
		}
		switch f := c.Call.Value.(type) {
		case *ssa.Builtin:
			switch f.Name() {
			case "len", "cap", "min", "max":
				return true
			}
			return false
		case *ssa.Function:
			return m.isPureFn(f, depth)
		}
		return false
	}
	return m.instrMergeable(instr)
}

// region computes (and caches) the merge region of a conditional branch.
func (m *Machine) region(fn *ssa.Function, b *ssa.BasicBlock) *regionInfo {
	if m.regions == nil {
		m.regions = map[*ssa.BasicBlock]*regionInfo{}
	}
	if r, ok := m.regions[b]; ok {
		return r
	}
	r := &regionInfo{}
	m.regions[b] = r
	pi := m.postdom(fn)
	j := pi.ipdom[b]
	if j == nil || !pi.ok[b] {
		return r
	}
	// collect blocks reachable from b's successors without passing j
	in := map[*ssa.BasicBlock]bool{}
	state := map[*ssa.BasicBlock]int{} // 1 = on stack, 2 = done
	var order []*ssa.BasicBlock
	acyclic := true
	var dfs func(x *ssa.BasicBlock)
	dfs = func(x *ssa.BasicBlock) {
		if x == j {
			return
		}
		if x == b {
			acyclic = false
			return
		}
		switch state[x] {
		case 1:
			acyclic = false
			return
		case 2:
			return
		}
		state[x] = 1
		in[x] = true
		if len(in) > 200 {
			acyclic = false
		}
		for _, s := range x.Succs {
			if !acyclic {
				return
			}
			dfs(s)
		}
		state[x] = 2
		order = append(order, x)
	}
	for _, s := range b.Succs {
		dfs(s)
	}
	if !acyclic {
		return r
	}
	// every region block must reach j only (no exits) and contain only mergeable instructions
	for _, x := range order {
		if len(x.Succs) == 0 {
			return r
		}
		for _, instr := range x.Instrs {
			if !m.instrMergeable(instr) {
				return r
			}
		}
	}
	// reverse post-order = topological order
	for i, k := 0, len(order)-1; i < k; i, k = i+1, k-1 {
		order[i], order[k] = order[k], order[i]
	}
	// Inside a loop, merging a diamond that produces integers turns concrete loop
	// variables (indices, bounds of a binary search) into symbolic ones, and every later
	// table access into a long ite chain: there forking is cheaper. Boolean joins
	// (short-circuit conditions) are always merged.
	if blockInLoop(b) {
		for _, in := range j.Instrs {
			phi, ok := in.(*ssa.Phi)
			if !ok {
				break
			}
			if !isBoolean(phi.Type()) {
				return r
			}
		}
		for _, x := range order {
			for _, in := range x.Instrs {
				if phi, ok := in.(*ssa.Phi); ok && !isBoolean(phi.Type()) {
					return r
				}
			}
		}
	}
	r.ok = true
	r.join = j
	r.order = order
	return r
}

// blockInLoop reports whether b can reach itself.
func blockInLoop(b *ssa.BasicBlock) bool {
	seen := map[*ssa.BasicBlock]bool{}
	stack := append([]*ssa.BasicBlock{}, b.Succs...)
	for len(stack) > 0 {
		x := stack[len(stack)-1]
		stack = stack[:len(stack)-1]
		if x == b {
			return true
		}
		if seen[x] {
			continue
		}
		seen[x] = true
		stack = append(stack, x.Succs...)
	}
	return false
}

type edge struct{ from, to *ssa.BasicBlock }

// tryMerge evaluates the region of a symbolic If as guarded straight-line code.
func (m *Machine) tryMerge(fr *frame, instr *ssa.If, c *Term) (merged bool) {
	if m.noMerge {
		return false
	}
	b := fr.block
	r := m.region(fr.fn, b)
	if !r.ok {
		return false
	}
	// (no give-up counter: whether a region is merged must depend on the current
	// state only, otherwise a replayed decision prefix would not line up)
	basePC := m.pc
	savedPrev := fr.prevBlock
	defer func() {
		m.inMerge = false
		m.pc = basePC
		if rec := recover(); rec != nil {
			if ma, ok := rec.(mergeAbort); ok {
				_ = ma
				m.St.MergeFail++
				if m.mergeFails == nil {
					m.mergeFails = map[*ssa.If]int{}
				}
				m.mergeFails[instr]++
				fr.block = b
				fr.prevBlock = savedPrev
				fr.curInstr = instr
				merged = false
				return
			}
			panic(rec)
		}
	}()
	m.inMerge = true
	econd := map[edge]*Term{}
	econd[edge{b, b.Succs[0]}] = c
	econd[edge{b, b.Succs[1]}] = Not(c)
	if b.Succs[0] == b.Succs[1] {
		econd[edge{b, b.Succs[0]}] = T.True
	}
	inRegion := map[*ssa.BasicBlock]bool{b: true}
	for _, x := range r.order {
		inRegion[x] = true
	}
	evalPhis := func(x *ssa.BasicBlock) {
		var phis []*ssa.Phi
		for _, in := range x.Instrs {
			p, ok := in.(*ssa.Phi)
			if !ok {
				break
			}
			phis = append(phis, p)
		}
		if len(phis) == 0 {
			return
		}
		vals := make([]Value, len(phis))
		for k, phi := range phis {
			var v Value
			first := true
			for i, p := range x.Preds {
				ec, ok := econd[edge{p, x}]
				if !ok || !inRegion[p] || ec.IsFalse() {
					continue
				}
				ev := fr.get(phi.Edges[i])
				if first {
					v = ev
					first = false
				} else {
					v = m.iteValue(ec, ev, v)
				}
			}
			if first {
				// unreachable block under this guard: any value will do
				v = zero(phi.Type())
			}
			vals[k] = v
		}
		for k, phi := range phis {
			fr.env[phi] = vals[k]
		}
	}
	for _, x := range r.order {
		guard := T.False
		for _, p := range x.Preds {
			if ec, ok := econd[edge{p, x}]; ok && inRegion[p] {
				guard = Or(guard, ec)
			}
		}
		m.pc = append(basePC[:len(basePC):len(basePC)], guard)
		if guard.IsFalse() {
			// dead under current values: still need edge conditions (false)
			for _, s := range x.Succs {
				econd[edge{x, s}] = T.False
			}
			continue
		}
		evalPhis(x)
		for _, in := range x.Instrs {
			switch in := in.(type) {
			case *ssa.Phi, *ssa.DebugRef:
				continue
			case *ssa.Jump:
				econd[edge{x, x.Succs[0]}] = guard
			case *ssa.If:
				d := asTerm(fr.get(in.Cond))
				if x.Succs[0] == x.Succs[1] {
					econd[edge{x, x.Succs[0]}] = guard
				} else {
					econd[edge{x, x.Succs[0]}] = And(guard, d)
					econd[edge{x, x.Succs[1]}] = And(guard, Not(d))
				}
			default:
				fr.curInstr = in
				m.step(fr)
				fr.block = x
				m.visitInstr(fr, in)
			}
		}
	}
	m.pc = basePC
	evalPhis(r.join)
	m.inMerge = false
	fr.prevBlock = b
	fr.block = r.join
	fr.skipPhis = true
	m.St.Merged++
	return true
}

// iteValue builds ite(c, a, b) over run-time values, aborting the merge when impossible.
func (m *Machine) iteValue(c *Term, a, b Value) Value {
	switch x := a.(type) {
	case *Term:
		if y, ok := b.(*Term); ok && x.W == y.W {
			return Ite(c, x, y)
		}
	case Str:
		y, ok := b.(Str)
		if ok && x.Len() == y.Len() {
			if x.IsConc() && y.IsConc() && x.S == y.S {
				return x
			}
			xb, yb := x.Bytes(), y.Bytes()
			r := make([]*Term, len(xb))
			for i := range xb {
				r[i] = Ite(c, xb[i], yb[i])
			}
			return StrFromTerms(r)
		}
	case Iface:
		y, ok := b.(Iface)
		if ok {
			if x.T == nil && y.T == nil {
				return x
			}
			if x.T != nil && y.T != nil && types.Identical(x.T, y.T) {
				return Iface{T: x.T, V: m.iteValue(c, x.V, y.V)}
			}
		}
	case Struct:
		y, ok := b.(Struct)
		if ok && len(x) == len(y) {
			r := make(Struct, len(x))
			for i := range x {
				r[i] = m.iteValue(c, x[i], y[i])
			}
			return r
		}
	case Array:
		y, ok := b.(Array)
		if ok && len(x) == len(y) {
			r := make(Array, len(x))
			for i := range x {
				r[i] = m.iteValue(c, x[i], y[i])
			}
			return r
		}
	case Tuple:
		y, ok := b.(Tuple)
		if ok && len(x) == len(y) {
			r := make(Tuple, len(x))
			for i := range x {
				r[i] = m.iteValue(c, x[i], y[i])
			}
			return r
		}
	case *Value:
		if y, ok := b.(*Value); ok && x == y {
			return x
		}
	case []Value:
		y, ok := b.([]Value)
		if ok && len(x) == len(y) && cap(x) == cap(y) && (len(x) == 0 && (x == nil) == (y == nil) || len(x) > 0 && &x[0] == &y[0]) {
			return x
		}
	case *Map:
		if y, ok := b.(*Map); ok && x == y {
			return x
		}
	case *Closure:
		if y, ok := b.(*Closure); ok && x == y {
			return x
		}
	case *ssa.Function:
		if y, ok := b.(*ssa.Function); ok && x == y {
			return x
		}
	case float64:
		if y, ok := b.(float64); ok && x == y {
			return x
		}
	case nil:
		if b == nil {
			return nil
		}
	}
	panic(mergeAbort{"cannot merge distinct non-scalar values"})
}
