package sym

import (
	"go/types"
	"strings"
)

// Contract models of the two third-party MP4 entry points the playback header reader calls.
// Both are reflection-driven in the real libraries; natively (replay) the real ones run.
//
//	amp4.Unmarshal(r, size, *Mvhd, ctx): reads the ISO 14496-12 mvhd payload (version 0: 100
//	    bytes, version 1: 112 bytes) through r and fills the version, Timescale and Duration
//	    fields from their byte positions; other destination types are unsupported.
//	(*fmp4.Init).Unmarshal(r): fails, or succeeds leaving the Init empty.
func init() {
	reg("github.com/abema/go-mp4.Unmarshal", func(m *Machine, fr *frame, a []Value) Value {
		dst, ok := a[2].(Iface)
		if !ok || dst.T == nil || !strings.HasSuffix(dst.T.String(), "go-mp4.Mvhd") {
			panic(unsupported("amp4.Unmarshal: only *Mvhd is modelled"))
		}
		size := asTerm(a[1])
		readFull := m.pkgFunc("io", "ReadFull")
		read := func(n int) ([]*Term, Value) {
			buf := make([]Value, n)
			for i := range buf {
				buf[i] = BV(8, 0)
			}
			res := m.call(fr, readFull, []Value{a[0], buf}, nil).(Tuple)
			if e := res[1].(Iface); e.T != nil {
				return nil, e
			}
			return sliceTerms(buf), nil
		}
		be32 := func(b []*Term) *Term {
			return Bin(OpOr, Bin(OpOr, Bin(OpShl, ZExt(b[0], 32), BV(32, 24)), Bin(OpShl, ZExt(b[1], 32), BV(32, 16))),
				Bin(OpOr, Bin(OpShl, ZExt(b[2], 32), BV(32, 8)), ZExt(b[3], 32)))
		}
		fail := func(msg string) Value { return Tuple{BV(64, 0), m.newError(fr, MkStr(msg))} }
		head, e := read(4)
		if e != nil {
			return Tuple{BV(64, 0), e}
		}
		cell := dst.V.(*Value)
		st := (*cell).(Struct)
		stt := deref(dst.T).Underlying().(*types.Struct)
		set := func(name string, v Value) {
			for i := 0; i < stt.NumFields(); i++ {
				if stt.Field(i).Name() == name {
					st[i] = v
				}
			}
		}
		v0 := m.branch(Eq(head[0], BV(8, 0)), "mvhd version 0")
		if !v0 && !m.branch(Eq(head[0], BV(8, 1)), "mvhd version 1") {
			return fail("unsupported mvhd version")
		}
		total := 100
		if !v0 {
			total = 112
		}
		if m.branch(Cmp(OpUlt, size, BV(64, uint64(total))), "mvhd payload size") {
			return fail("mvhd: payload too small")
		}
		rest, e := read(total - 4)
		if e != nil {
			return Tuple{BV(64, 0), e}
		}
		// FullBox{Version uint8; Flags [3]byte}
		for i := 0; i < stt.NumFields(); i++ {
			if stt.Field(i).Name() == "FullBox" {
				fb := st[i].(Struct)
				fbt := stt.Field(i).Type().Underlying().(*types.Struct)
				for k := 0; k < fbt.NumFields(); k++ {
					switch fbt.Field(k).Name() {
					case "Version":
						fb[k] = head[0]
					case "Flags":
						fb[k] = Array{head[1], head[2], head[3]}
					}
				}
			}
		}
		if v0 {
			set("CreationTimeV0", be32(rest[0:4]))
			set("ModificationTimeV0", be32(rest[4:8]))
			set("Timescale", be32(rest[8:12]))
			set("DurationV0", be32(rest[12:16]))
		} else {
			set("Timescale", be32(rest[16:20]))
			set("DurationV1", Bin(OpOr, Bin(OpShl, ZExt(be32(rest[20:24]), 64), BV(64, 32)), ZExt(be32(rest[24:28]), 64)))
		}
		return Tuple{BV(64, uint64(total)), Iface{}}
	})
	reg("(*github.com/bluenviron/mediacommon/v2/pkg/formats/fmp4.Init).Unmarshal", func(m *Machine, fr *frame, a []Value) Value {
		if m.branch(m.freshVar("fmp4.Init.Unmarshal.ok", 0), "fmp4.Init.Unmarshal") {
			return Iface{}
		}
		return m.newError(fr, MkStr("fmp4: invalid init"))
	})
}
