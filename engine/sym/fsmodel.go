package sym

import (
	"go/types"
	"strings"
)

// A small environment model of the file system for harnesses that create, stat and
// remove files under a temporary directory: a set of concrete path names per path.
// Natively the real file system is used.

func (m *Machine) fsPath(v Value, what string) string {
	s, ok := v.(Str)
	if !ok || !s.IsConc() {
		panic(unsupported(what + ": file name must be concrete in the file-system model"))
	}
	return s.S
}

func (m *Machine) fsErr(fr *frame, msg string) Value {
	// "no such file" errors are *fs.PathError wrapping oserror.ErrNotExist, so that os.IsNotExist and
	// errors.Is(err, fs.ErrNotExist) answer as they do on the real file system
	if strings.Contains(msg, "no such file or directory") {
		fsp, ose := m.Prog.ImportedPackage("io/fs"), m.Prog.ImportedPackage("internal/oserror")
		if fsp != nil && ose != nil && fsp.Type("PathError") != nil && ose.Var("ErrNotExist") != nil {
			pt := fsp.Type("PathError").Type()
			st := pt.Underlying().(*types.Struct)
			v := zero(pt).(Struct)
			op, rest, _ := strings.Cut(msg, " ")
			name, _, _ := strings.Cut(rest, ":")
			for i := 0; i < st.NumFields(); i++ {
				switch st.Field(i).Name() {
				case "Op":
					v[i] = MkStr(op)
				case "Path":
					v[i] = MkStr(name)
				case "Err":
					v[i] = *m.global(ose.Var("ErrNotExist"))
				}
			}
			cell := new(Value)
			*cell = v
			return Iface{T: types.NewPointer(pt), V: cell}
		}
	}
	return m.newError(fr, MkStr(msg))
}

func init() {
	reg("os.MkdirTemp", func(m *Machine, fr *frame, a []Value) Value {
		if m.fs == nil {
			m.fs = map[string]bool{}
		}
		m.fsTemp++
		return Tuple{MkStr("/tmp/verif-model-dir"), Iface{}}
	})
	reg("os.MkdirAll", func(m *Machine, fr *frame, a []Value) Value { return Iface{} })
	reg("os.RemoveAll", func(m *Machine, fr *frame, a []Value) Value {
		p := m.fsPath(a[0], "os.RemoveAll")
		for k := range m.fs {
			if k == p || strings.HasPrefix(k, p+"/") {
				delete(m.fs, k)
			}
		}
		return Iface{}
	})
	reg("os.WriteFile", func(m *Machine, fr *frame, a []Value) Value {
		if m.fs == nil {
			m.fs = map[string]bool{}
		}
		m.fs[m.fsPath(a[0], "os.WriteFile")] = true
		return Iface{}
	})
	reg("os.Remove", func(m *Machine, fr *frame, a []Value) Value {
		p := m.fsPath(a[0], "os.Remove")
		m.trace = append(m.trace, Event{Name: "os.Remove", Args: a})
		if m.fs[p] {
			delete(m.fs, p)
			return Iface{}
		}
		return m.fsErr(fr, "remove "+p+": no such file or directory")
	})
	reg("os.Stat", func(m *Machine, fr *frame, a []Value) Value {
		p := m.fsPath(a[0], "os.Stat")
		if m.fs[p] {
			return Tuple{Iface{T: types.Typ[types.String], V: MkStr("fileinfo:" + p)}, Iface{}}
		}
		return Tuple{Iface{}, m.fsErr(fr, "stat "+p+": no such file or directory")}
	})
	// gin / httptest plumbing: the response side is not modelled (recorded only)
	reg("net/http/httptest.NewRecorder", func(m *Machine, fr *frame, a []Value) Value {
		cell := new(Value)
		*cell = zero(deref(fr.fn.Signature.Results().At(0).Type()))
		return cell
	})
	reg("github.com/gin-gonic/gin.CreateTestContext", func(m *Machine, fr *frame, a []Value) Value {
		res := fr.fn.Signature.Results()
		cell := new(Value)
		*cell = zero(deref(res.At(0).Type()))
		// ctx.Writer = &ctx.writermem, so that ctx.Writer.Status() reads the recorded status
		ct := deref(res.At(0).Type()).Underlying().(*types.Struct)
		wi, mi := -1, -1
		for i := 0; i < ct.NumFields(); i++ {
			switch ct.Field(i).Name() {
			case "Writer":
				wi = i
			case "writermem":
				mi = i
			}
		}
		if wi >= 0 && mi >= 0 {
			st := (*cell).(Struct)
			st[wi] = Iface{T: types.NewPointer(ct.Field(mi).Type()), V: &st[mi]}
		}
		return Tuple{cell, (*Value)(nil)}
	})
	for _, n := range []string{"AbortWithStatusJSON", "JSON", "AbortWithStatus", "Header", "Status", "Abort"} {
		n := n
		reg("(*github.com/gin-gonic/gin.Context)."+n, func(m *Machine, fr *frame, a []Value) Value {
			m.trace = append(m.trace, Event{Name: "gin." + n, Args: a[1:]})
			return nil
		})
	}
}

// filepath.WalkDir over the file-system model: directories are implied by the file names;
// entries are visited in lexical order, the root first.
func init() {
	dirEntry := func(name string, isDir bool) Value {
		obj := &NativeObj{Name: "fs.DirEntry"}
		obj.Methods = map[string]func(m *Machine, fr *frame, args []Value) Value{
			"IsDir": func(m *Machine, fr *frame, args []Value) Value { return Bool(isDir) },
			"Name":  func(m *Machine, fr *frame, args []Value) Value { return MkStr(name) },
		}
		return Iface{T: types.Typ[types.String], V: obj}
	}
	reg("path/filepath.WalkDir", func(m *Machine, fr *frame, a []Value) Value {
		root := m.fsPath(a[0], "filepath.WalkDir")
		fn := a[1]
		// collect entries under root
		type ent struct {
			path  string
			isDir bool
		}
		seen := map[string]bool{}
		var ents []ent
		for f := range m.fs {
			if f != root && !strings.HasPrefix(f, root+"/") {
				continue
			}
			if !seen[f] {
				seen[f] = true
				ents = append(ents, ent{f, false})
			}
			for d := f; ; {
				i := strings.LastIndex(d, "/")
				if i <= 0 {
					break
				}
				d = d[:i]
				if len(d) < len(root) {
					break
				}
				if !seen[d] {
					seen[d] = true
					ents = append(ents, ent{d, true})
				}
			}
		}
		if !seen[root] {
			// root does not exist: the callback is told so
			err := m.fsErr(fr, "lstat "+root+": no such file or directory")
			return m.callValue(fr, fn, []Value{MkStr(root), Iface{}, err})
		}
		// lexical order by path components
		for i := 1; i < len(ents); i++ {
			for j := i; j > 0 && ents[j].path < ents[j-1].path; j-- {
				ents[j], ents[j-1] = ents[j-1], ents[j]
			}
		}
		for _, e := range ents {
			base := e.path[strings.LastIndex(e.path, "/")+1:]
			r := m.callValue(fr, fn, []Value{MkStr(e.path), dirEntry(base, e.isDir), Iface{}})
			if it, ok := r.(Iface); ok && it.T != nil {
				return r // an error (incl. SkipDir/SkipAll, which the callers here do not use) stops the walk
			}
		}
		return Iface{}
	})
}

func init() {
	// gin.Context.ClientIP without forwarding headers: the host part of the connection's remote address
	reg("(*github.com/gin-gonic/gin.Context).ClientIP", func(m *Machine, fr *frame, a []Value) Value {
		ctx := a[0].(*Value)
		ct := deref(fr.fn.Signature.Recv().Type()).Underlying().(*types.Struct)
		for i := 0; i < ct.NumFields(); i++ {
			if ct.Field(i).Name() != "Request" {
				continue
			}
			reqp, _ := (*ctx).(Struct)[i].(*Value)
			if reqp == nil {
				return MkStr("")
			}
			rt := deref(ct.Field(i).Type()).Underlying().(*types.Struct)
			for j := 0; j < rt.NumFields(); j++ {
				if rt.Field(j).Name() == "RemoteAddr" {
					ra := (*reqp).(Struct)[j].(Str)
					if !ra.IsConc() {
						panic(unsupported("ClientIP: symbolic RemoteAddr"))
					}
					if k := strings.LastIndex(ra.S, ":"); k >= 0 {
						return MkStr(strings.Trim(ra.S[:k], "[]"))
					}
					return ra
				}
			}
		}
		return MkStr("")
	})
	abort := func(m *Machine, fr *frame, a []Value) {
		ctx := a[0].(*Value)
		ct := deref(fr.fn.Signature.Recv().Type()).Underlying().(*types.Struct)
		for i := 0; i < ct.NumFields(); i++ {
			if ct.Field(i).Name() == "index" {
				(*ctx).(Struct)[i] = BV(widthOf(ct.Field(i).Type()), 63) // abortIndex
			}
		}
	}
	for _, n := range []string{"AbortWithStatusJSON", "AbortWithStatus", "Abort"} {
		n := n
		reg("(*github.com/gin-gonic/gin.Context)."+n, func(m *Machine, fr *frame, a []Value) Value {
			m.trace = append(m.trace, Event{Name: "gin." + n, Args: a[1:]})
			abort(m, fr, a)
			if n != "Abort" {
				ginSetStatus(fr, a)
			}
			return nil
		})
	}
	reg(modPathConst+"/internal/auth.LogAndDelayError", noop)
}

// ginSetStatus records the response status in ctx.writermem.status (what WriteHeader does).
func ginSetStatus(fr *frame, a []Value) {
	ctx := a[0].(*Value)
	ct := deref(fr.fn.Signature.Recv().Type()).Underlying().(*types.Struct)
	for i := 0; i < ct.NumFields(); i++ {
		if ct.Field(i).Name() != "writermem" {
			continue
		}
		wt := ct.Field(i).Type().Underlying().(*types.Struct)
		for j := 0; j < wt.NumFields(); j++ {
			if wt.Field(j).Name() == "status" {
				(*ctx).(Struct)[i].(Struct)[j] = a[1]
			}
		}
	}
}

func init() {
	for _, n := range []string{"JSON", "Status", "String", "Data", "Render", "HTML", "XML", "YAML", "IndentedJSON", "PureJSON", "SecureJSON", "AsciiJSON", "JSONP", "ProtoBuf", "TOML", "Redirect", "DataFromReader"} {
		n := n
		reg("(*github.com/gin-gonic/gin.Context)."+n, func(m *Machine, fr *frame, a []Value) Value {
			m.trace = append(m.trace, Event{Name: "gin." + n, Args: a[1:]})
			ginSetStatus(fr, a)
			return nil
		})
	}
}
