package sym

import (
	"fmt"
	"go/types"
	"strconv"
	"strings"

	"golang.org/x/tools/go/ssa"
)

// VndPath is the import path of the nondeterminism package.
const VndPath = "github.com/bluenviron/mediamtx/internal/zzverif/vnd"

type intrinsic func(m *Machine, fr *frame, args []Value) Value

var intrinsics = map[string]intrinsic{}

func reg(name string, f intrinsic) { intrinsics[name] = f }

func noop(m *Machine, fr *frame, args []Value) Value { return nil }

func conc(v Value, what string) int64 {
	c, ok := concInt(v)
	if !ok {
		panic(unsupported(what + ": argument must be concrete"))
	}
	return c
}

func concStr(v Value, what string) string {
	s, ok := v.(Str)
	if !ok || !s.IsConc() {
		panic(unsupported(what + ": string argument must be concrete"))
	}
	return s.S
}

func (m *Machine) freshName(name string) string {
	if m.nameCnt == nil {
		m.nameCnt = map[string]int{}
	}
	k := m.nameCnt[name]
	m.nameCnt[name] = k + 1
	if k == 0 {
		return name
	}
	return name + "#" + strconv.Itoa(k)
}

// freshVar creates an auxiliary variable that is not a harness input.
func (m *Machine) freshVar(name string, w int) *Term {
	v := Var("aux!"+m.freshName("aux!"+name), w)
	m.auxVars = append(m.auxVars, v)
	return v
}

func (m *Machine) input(name, kind string, w int) *Term {
	n := m.freshName(name)
	v := Var(n, w)
	m.inputs = append(m.inputs, &Input{Name: n, Kind: kind, W: w, Vars: []*Term{v}})
	return v
}

func init() {
	v := func(n string) string { return VndPath + "." + n }
	scalar := func(fn, kind string, w int) {
		reg(v(fn), func(m *Machine, fr *frame, a []Value) Value {
			return m.input(concStr(a[0], fn), kind, w)
		})
	}
	scalar("Bool", "bool", 0)
	scalar("Byte", "u8", 8)
	scalar("Uint8", "u8", 8)
	scalar("Uint16", "u16", 16)
	scalar("Uint32", "u32", 32)
	scalar("Uint64", "u64", 64)
	scalar("Uint", "u64", 64)
	scalar("Int8", "i8", 8)
	scalar("Int16", "i16", 16)
	scalar("Int32", "i32", 32)
	scalar("Int64", "i64", 64)
	scalar("Int", "i64", 64)

	reg(v("IntRange"), func(m *Machine, fr *frame, a []Value) Value {
		x := m.input(concStr(a[0], "IntRange"), "i64", 64)
		lo, hi := asTerm(a[1]), asTerm(a[2])
		m.assume(And(Cmp(OpSle, lo, x), Cmp(OpSle, x, hi)))
		return x
	})
	reg(v("Choose"), func(m *Machine, fr *frame, a []Value) Value {
		n := int(conc(a[1], "Choose"))
		if n <= 0 {
			panic(unsupported("Choose(n<=0)"))
		}
		x := m.input(concStr(a[0], "Choose"), "choice", 16)
		alts := make([]*Term, n)
		for i := range alts {
			alts[i] = Eq(x, BV(16, uint64(i)))
		}
		k := m.choose(alts, "vnd.Choose:"+concStr(a[0], "Choose"))
		return BV(64, uint64(k))
	})
	reg(v("Bytes"), func(m *Machine, fr *frame, a []Value) Value {
		n := int(conc(a[1], "Bytes"))
		name := m.freshName(concStr(a[0], "Bytes"))
		in := &Input{Name: name, Kind: "bytes", W: 8, N: n}
		r := make([]Value, n)
		for i := 0; i < n; i++ {
			t := Var(fmt.Sprintf("%s[%d]", name, i), 8)
			in.Vars = append(in.Vars, t)
			r[i] = t
		}
		m.inputs = append(m.inputs, in)
		return r
	})
	reg(v("String"), func(m *Machine, fr *frame, a []Value) Value {
		n := int(conc(a[1], "String"))
		name := m.freshName(concStr(a[0], "String"))
		in := &Input{Name: name, Kind: "string", W: 8, N: n}
		b := make([]*Term, n)
		for i := 0; i < n; i++ {
			b[i] = Var(fmt.Sprintf("%s[%d]", name, i), 8)
		}
		in.Vars = b
		m.inputs = append(m.inputs, in)
		return StrFromTerms(b)
	})
	reg(v("Assume"), func(m *Machine, fr *frame, a []Value) Value {
		m.St.Assumes++
		c := asTerm(a[0])
		if c.IsConst() {
			m.assume(c)
			return nil
		}
		r, _ := m.S.Check(m.pc, c, nil)
		if r == Unsat {
			panic(pathEnd{"infeasible", "assumption unsatisfiable"})
		}
		m.assume(c)
		return nil
	})
	reg(v("Assert"), func(m *Machine, fr *frame, a []Value) Value {
		m.assert(fr, asTerm(a[0]), concStr(a[1], "Assert label"))
		return nil
	})
	reg(v("Cover"), func(m *Machine, fr *frame, a []Value) Value {
		m.cover(fr, asTerm(a[0]), concStr(a[1], "Cover label"))
		return nil
	})
	reg(v("Bound"), func(m *Machine, fr *frame, a []Value) Value {
		name := concStr(a[0], "Bound")
		def := conc(a[1], "Bound")
		if b, ok := m.Cfg.Bounds[name]; ok {
			def = int64(b)
		}
		if m.BoundsUsed == nil {
			m.BoundsUsed = map[string]int{}
		}
		m.BoundsUsed[name] = int(def)
		return BV(64, uint64(def))
	})
	reg(v("Concretize"), func(m *Machine, fr *frame, a []Value) Value {
		return BV(64, uint64(m.concretize(asTerm(a[0]), "vnd.Concretize@"+fr.caller.where())))
	})
	reg(v("Panics"), func(m *Machine, fr *frame, a []Value) Value {
		return Bool(m.catches(fr, a[0]))
	})
	reg(v("AllocLimit"), func(m *Machine, fr *frame, a []Value) Value {
		m.allocLimit = int(conc(a[0], "AllocLimit"))
		return nil
	})
	reg(v("MaxAlloc"), func(m *Machine, fr *frame, a []Value) Value {
		return BV(64, uint64(m.maxAlloc))
	})
	reg(v("Symbolic"), func(m *Machine, fr *frame, a []Value) Value { return T.True })
	reg(v("GoMode"), func(m *Machine, fr *frame, a []Value) Value {
		m.goMode = concStr(a[0], "GoMode")
		return nil
	})
	reg(v("Note"), func(m *Machine, fr *frame, a []Value) Value {
		return nil
	})
}

// catches runs f and reports whether it panicked (vnd.Panics).
func (m *Machine) catches(fr *frame, f Value) (panicked bool) {
	defer func() {
		if r := recover(); r != nil {
			if _, ok := r.(*goPanic); ok {
				panicked = true
				return
			}
			panic(r)
		}
	}()
	m.callValue(fr, f, nil)
	return false
}

func (m *Machine) modelInputs(model map[string]uint64) []map[string]string {
	var out []map[string]string
	for _, in := range m.inputs {
		e := map[string]string{"name": in.Name, "kind": in.Kind}
		switch in.Kind {
		case "bytes", "string":
			var sb strings.Builder
			for _, v := range in.Vars {
				fmt.Fprintf(&sb, "%02x", model[v.Name]&0xff)
			}
			e["val"] = sb.String()
		default:
			val := model[in.Vars[0].Name]
			if strings.HasPrefix(in.Kind, "i") {
				e["val"] = strconv.FormatInt(sext(val, in.W), 10)
			} else {
				e["val"] = strconv.FormatUint(val, 10)
			}
		}
		out = append(out, e)
	}
	return out
}

func (m *Machine) inputVars() []*Term {
	var vs []*Term
	for _, in := range m.inputs {
		vs = append(vs, in.Vars...)
	}
	return vs
}

func (m *Machine) assert(fr *frame, c *Term, label string) {
	m.St.AssertSeen[label]++
	if c.IsTrue() {
		return
	}
	m.St.AssertQueries++
	r, model := m.S.Check(m.pc, Not(c), m.inputVars())
	switch r {
	case Unsat:
		m.assume(c) // known to hold from here on
		return
	case Unknown:
		m.St.UnknownQueries++
		m.pathNotes = append(m.pathNotes, "unknown on assert "+label)
		m.unknownAsserts = append(m.unknownAsserts, label+" @ "+fr.caller.where())
		m.assume(c)
		return
	}
	m.recordViolation("assert", label, fr.caller.where(), model)
	if c.IsFalse() {
		panic(pathEnd{"done", "assertion always fails here"})
	}
	// continue on the side where the assertion holds
	rr, _ := m.S.Check(m.pc, c, nil)
	if rr == Unsat {
		panic(pathEnd{"done", "assertion fails on the whole path"})
	}
	m.assume(c)
}

func (m *Machine) recordViolation(kind, label, where string, model map[string]uint64) {
	key := m.entry + "/" + kind + "/" + label
	if kind == "panic" {
		top := where
		if i := strings.Index(top, " <- "); i >= 0 {
			top = top[:i]
		}
		if i := strings.LastIndex(top, "@"); i >= 0 {
			top = top[i+1:] // file:line of the faulting instruction
		}
		key += "@" + top
	}
	key = strings.Map(func(r rune) rune {
		if r == ' ' || r == '\t' || r == '\n' {
			return '_'
		}
		return r
	}, key)
	if m.violKeys[key] {
		m.dupViolations++
		return
	}
	m.violKeys[key] = true
	v := &Violation{Entry: m.entry, Kind: kind, Label: label, Where: where, Inputs: m.modelInputs(model), Key: key}
	m.Violations = append(m.Violations, v)
}

func (m *Machine) cover(fr *frame, c *Term, label string) {
	if _, ok := m.St.CoverHit[label]; ok {
		return
	}
	if c.IsFalse() {
		return
	}
	r, model := m.S.Check(m.pc, c, m.inputVars())
	if r == Sat {
		m.St.CoverHit[label] = m.modelInputs(model)
	}
}

// ---------------------------------------------------------------------------
// helpers for library intrinsics

func (m *Machine) pkgFunc(pkg, name string) *ssa.Function {
	p := m.Prog.ImportedPackage(pkg)
	if p == nil {
		panic(unsupported("package " + pkg + " not in program"))
	}
	f := p.Func(name)
	if f == nil {
		panic(unsupported("function " + pkg + "." + name + " not found"))
	}
	return f
}

func (m *Machine) newError(fr *frame, msg Str) Value {
	f := m.pkgFunc("errors", "New")
	return m.call(fr, f, []Value{msg}, nil)
}

// errorString calls Error() on an error value.
func (m *Machine) errorString(fr *frame, e Iface) Str {
	if e.T == nil {
		return MkStr("<nil>")
	}
	if no, ok := e.V.(*NativeObj); ok {
		return m.callValue(fr, no.method("Error"), []Value{e.V}).(Str)
	}
	f := m.Prog.LookupMethod(e.T, nil, "Error")
	if f == nil {
		panic(unsupported("no Error method on " + e.T.String()))
	}
	return m.call(fr, f, []Value{e.V}, nil).(Str)
}

func (m *Machine) hasMethod(t types.Type, name string) *ssa.Function {
	ms := m.Prog.MethodSets.MethodSet(t)
	for i := 0; i < ms.Len(); i++ {
		if ms.At(i).Obj().Name() == name {
			return m.Prog.MethodValue(ms.At(i))
		}
	}
	return nil
}
