package sym

import (
	"fmt"
	"go/types"

	"golang.org/x/tools/go/ssa"
)

func (m *Machine) callBuiltin(fr *frame, fn *ssa.Builtin, args []Value) Value {
	switch fn.Name() {
	case "append":
		if len(args) == 1 {
			return args[0]
		}
		var add []Value
		switch y := args[1].(type) {
		case Str:
			for _, b := range y.Bytes() {
				add = append(add, b)
			}
		case []Value:
			add = y
		}
		x := args[0].([]Value)
		if len(add) == 0 {
			return x
		}
		if m.inMerge {
			panic(mergeAbort{"append in merge region"})
		}
		need := len(x) + len(add)
		if need <= cap(x) {
			r := x[:need]
			for i, v := range add {
				r[len(x)+i] = copyVal(v)
			}
			return r
		}
		nc := cap(x) * 2
		if nc < need {
			nc = need
		}
		if nc < 4 {
			nc = 4
		}
		r := make([]Value, need, nc)
		copy(r, x)
		for i, v := range add {
			r[len(x)+i] = copyVal(v)
		}
		// elements beyond len must hold zero values of the element type
		if nc > need {
			et := fn.Type().(*types.Signature).Params().At(0).Type().Underlying().(*types.Slice).Elem()
			for i := need; i < nc; i++ {
				r[:nc][i] = zero(et)
			}
		}
		m.noteAlloc(fr, nc)
		return r

	case "copy":
		dst := args[0].([]Value)
		var src []Value
		switch y := args[1].(type) {
		case Str:
			for _, b := range y.Bytes() {
				src = append(src, b)
			}
		case []Value:
			src = y
		}
		if m.inMerge && len(dst) > 0 && len(src) > 0 {
			panic(mergeAbort{"copy in merge region"})
		}
		// memmove semantics
		tmp := make([]Value, 0, len(src))
		n := len(src)
		if len(dst) < n {
			n = len(dst)
		}
		for i := 0; i < n; i++ {
			tmp = append(tmp, copyVal(src[i]))
		}
		copy(dst, tmp)
		return BV(64, uint64(n))

	case "close":
		c, _ := args[0].(*Chan)
		if c == nil {
			m.rtPanic(fr, T.True, "close of nil channel")
		}
		if c.Closed {
			m.rtPanic(fr, T.True, "close of closed channel")
		}
		c.Closed = true
		m.trace = append(m.trace, Event{Name: "close:" + c.Name})
		return nil

	case "delete":
		mp, _ := args[0].(*Map)
		m.mapDelete(fr, mp, args[1])
		return nil

	case "clear":
		switch x := args[0].(type) {
		case *Map:
			if x != nil {
				x.Keys, x.Vals, x.fast = nil, nil, nil
			}
		case []Value:
			et := fn.Type().(*types.Signature).Params().At(0).Type().Underlying().(*types.Slice).Elem()
			for i := range x {
				x[i] = zero(et)
			}
		}
		return nil

	case "print", "println":
		return nil

	case "len":
		switch x := args[0].(type) {
		case Str:
			return BV(64, uint64(x.Len()))
		case Array:
			return BV(64, uint64(len(x)))
		case *Value:
			if x == nil {
				// len of nil *array is the array length (static); recover from the type
				at := deref(fn.Type().(*types.Signature).Params().At(0).Type()).Underlying().(*types.Array)
				return BV(64, uint64(at.Len()))
			}
			return BV(64, uint64(len((*x).(Array))))
		case []Value:
			return BV(64, uint64(len(x)))
		case *Map:
			if x == nil {
				return BV(64, 0)
			}
			return BV(64, uint64(len(x.Keys)))
		case *Chan:
			if x == nil {
				return BV(64, 0)
			}
			return BV(64, uint64(len(x.Buf)))
		}
		panic(unsupported(fmt.Sprintf("len of %T", args[0])))

	case "cap":
		switch x := args[0].(type) {
		case Array:
			return BV(64, uint64(len(x)))
		case *Value:
			return BV(64, uint64(len((*x).(Array))))
		case []Value:
			return BV(64, uint64(cap(x)))
		case *Chan:
			if x == nil {
				return BV(64, 0)
			}
			return BV(64, uint64(x.Cap))
		}
		panic(unsupported(fmt.Sprintf("cap of %T", args[0])))

	case "min", "max":
		t := fn.Type().(*types.Signature).Params().At(0).Type()
		r := args[0]
		for _, a := range args[1:] {
			switch x := r.(type) {
			case *Term:
				y := a.(*Term)
				var lt *Term // pick y?
				a1, a2 := y, x
				if fn.Name() == "max" {
					a1, a2 = x, y
				}
				if isSigned(t) {
					lt = Cmp(OpSlt, a1, a2)
				} else {
					lt = Cmp(OpUlt, a1, a2)
				}
				r = Ite(lt, y, x)
			case float64:
				y := a.(float64)
				if fn.Name() == "min" {
					if y < x {
						r = y
					}
				} else if y > x {
					r = y
				}
			case Str:
				y := a.(Str)
				var lt *Term
				if fn.Name() == "min" {
					lt = m.strLess(y, x, false)
				} else {
					lt = m.strLess(x, y, false)
				}
				if m.branch(lt, "minmax-str") {
					r = y
				}
			default:
				panic(unsupported(fmt.Sprintf("min/max of %T", r)))
			}
		}
		return r

	case "panic":
		panic(&goPanic{Val: args[0], Msg: "panic: " + m.panicString(args[0]), Where: fr.where() + m.stack(fr)})

	case "recover":
		return m.doRecover(fr)

	case "ssa:wrapnilchk":
		recv := args[0]
		if p, ok := recv.(*Value); ok && p == nil {
			m.rtPanic(fr, T.True, "value method called using nil pointer")
		}
		return recv

	case "real":
		return real(args[0].(complex128))
	case "imag":
		return imag(args[0].(complex128))
	case "complex":
		return complex(args[0].(float64), args[1].(float64))

	// unsafe
	case "String": // unsafe.String(ptr *byte, len)
		n := int(m.concretize(m.toIndex(asTerm(args[1]), fn.Type().(*types.Signature).Params().At(1).Type()), "unsafe.String"))
		p, _ := args[0].(*Value)
		if p == nil || n == 0 {
			return Str{}
		}
		s, ok := m.sliceOf[p]
		if !ok || len(s) < n {
			panic(unsupported("unsafe.String on untracked pointer"))
		}
		b := make([]*Term, n)
		for i := 0; i < n; i++ {
			b[i] = s[i].(*Term)
		}
		return StrFromTerms(b)
	case "StringData":
		s := args[0].(Str)
		if s.Len() == 0 {
			return (*Value)(nil)
		}
		bs := s.Bytes()
		sl := make([]Value, len(bs))
		for i := range bs {
			sl[i] = bs[i]
		}
		m.sliceOf[&sl[0]] = sl
		return &sl[0]
	case "SliceData":
		s := args[0].([]Value)
		if cap(s) == 0 {
			return (*Value)(nil)
		}
		full := s[:cap(s)]
		m.sliceOf[&full[0]] = full
		return &full[0]
	case "Slice": // unsafe.Slice(ptr, len)
		n := int(m.concretize(m.toIndex(asTerm(args[1]), fn.Type().(*types.Signature).Params().At(1).Type()), "unsafe.Slice"))
		p, _ := args[0].(*Value)
		if p == nil {
			if n != 0 {
				m.rtPanic(fr, T.True, "unsafe.Slice: ptr is nil and len is not zero")
			}
			return []Value(nil)
		}
		s, ok := m.sliceOf[p]
		if !ok || len(s) < n {
			panic(unsupported("unsafe.Slice on untracked pointer"))
		}
		return s[:n:n]
	}
	panic(unsupported("builtin " + fn.Name()))
}
