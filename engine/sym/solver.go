package sym

import (
	"bufio"
	"fmt"
	"io"
	"os"
	"os/exec"
	"regexp"
	"strconv"
	"strings"
	"time"
)

// Result of a satisfiability query.
type Result int

// Query results.
const (
	Unsat Result = iota
	Sat
	Unknown
)

func (r Result) String() string { return [...]string{"unsat", "sat", "unknown"}[r] }

// Solver is one persistent SMT solver process (SMT-LIB2 on stdin).
type Solver struct {
	Name    string
	argv    []string
	cmd     *exec.Cmd
	in      io.WriteCloser
	out     *bufio.Reader
	epoch   int
	Timeout int // ms per check-sat
	log     io.Writer

	// statistics
	NSat, NUnsat, NUnknown int
	NCacheHit              int
	Seconds                float64
	Errors                 []string

	cache map[string]Result
	buf   strings.Builder

	emittedSet []bool
	Fallbacks  []*Solver // tried in order when this solver answers unknown
	NFallback  int
	NKilled    int

	preferFallback bool
}

func (s *Solver) isEmitted(t *Term) bool {
	return t.ID < len(s.emittedSet) && s.emittedSet[t.ID]
}

func (s *Solver) markEmitted(t *Term) {
	for t.ID >= len(s.emittedSet) {
		s.emittedSet = append(s.emittedSet, make([]bool, len(s.emittedSet)+1024)...)
	}
	s.emittedSet[t.ID] = true
}

// NewPortfolio starts z3 with a short per-query timeout and cvc5 / z3-new as fallbacks
// with the full timeout.
func NewPortfolio(timeoutMs int) (*Solver, error) {
	first := 1500
	if timeoutMs < first {
		first = timeoutMs
	}
	s, err := NewSolver("z3", first)
	if err != nil {
		return nil, err
	}
	for _, k := range []string{"cvc5", "z3-new"} {
		f, err := NewSolver(k, timeoutMs)
		if err != nil {
			continue
		}
		s.Fallbacks = append(s.Fallbacks, f)
	}
	s.Name = "portfolio(z3 4.8.12 → cvc5 → z3 5.1)"
	return s, nil
}

// NewSolver starts a solver. kind: "z3", "z3-new", "cvc5".
func NewSolver(kind string, timeoutMs int) (*Solver, error) {
	s := &Solver{Name: kind, Timeout: timeoutMs, cache: map[string]Result{}}
	switch kind {
	case "z3":
		s.argv = []string{"/usr/bin/z3", "-in"}
	case "z3-new":
		s.argv = []string{"z3-new", "-in"}
	case "cvc5":
		s.argv = []string{"cvc5", "--incremental", "--lang=smt2", fmt.Sprintf("--tlimit-per=%d", timeoutMs)}
	default:
		return nil, fmt.Errorf("unknown solver %q", kind)
	}
	if p := os.Getenv("SYMGO_SMTLOG"); p != "" {
		f, err := os.Create(fmt.Sprintf("%s.%d.%s", p, os.Getpid(), kind))
		if err == nil {
			s.log = f
		}
	}
	if err := s.start(); err != nil {
		return nil, err
	}
	return s, nil
}

func (s *Solver) start() error {
	s.cmd = exec.Command(s.argv[0], s.argv[1:]...)
	in, err := s.cmd.StdinPipe()
	if err != nil {
		return err
	}
	out, err := s.cmd.StdoutPipe()
	if err != nil {
		return err
	}
	s.cmd.Stderr = os.Stderr
	if err := s.cmd.Start(); err != nil {
		return err
	}
	s.in = in
	s.out = bufio.NewReaderSize(out, 1<<16)
	s.epoch++
	s.emittedSet = nil
	s.send("(set-option :print-success false)\n")
	if s.Name != "cvc5" {
		s.send(fmt.Sprintf("(set-option :timeout %d)\n", s.Timeout))
	}
	s.send("(set-option :produce-models true)\n(set-logic ALL)\n")
	return nil
}

// Close terminates the solver.
func (s *Solver) Close() {
	for _, f := range s.Fallbacks {
		f.Close()
	}
	if s.cmd != nil {
		s.in.Close()
		s.cmd.Process.Kill()
		s.cmd.Wait()
		s.cmd = nil
	}
}

// Reset restarts the solver processes (dropping all accumulated definitions and
// the query cache) while keeping the statistics.
func (s *Solver) Reset() {
	s.restart()
	s.cache = map[string]Result{}
	s.preferFallback = false
	for _, f := range s.Fallbacks {
		f.Reset()
	}
}

func (s *Solver) restart() {
	if s.cmd != nil {
		s.in.Close()
		s.cmd.Process.Kill()
		s.cmd.Wait()
		s.cmd = nil
	}
	if err := s.start(); err != nil {
		panic(err)
	}
}

func (s *Solver) send(txt string) {
	if s.log != nil {
		io.WriteString(s.log, txt)
	}
	if _, err := io.WriteString(s.in, txt); err != nil {
		panic(fmt.Sprintf("solver write: %v", err))
	}
}

// ref returns the SMT-LIB reference to a term, emitting definitions as needed
// into s.buf (which must be flushed at assertion level 0).
func (s *Solver) ref(t *Term) string {
	switch t.Op {
	case OpConst:
		return constStr(t)
	case OpVar:
		if !s.isEmitted(t) {
			s.markEmitted(t)
			fmt.Fprintf(&s.buf, "(declare-const %s %s)\n", varSMT(t), sortStr(t.W))
		}
		return varSMT(t)
	}
	name := "t" + strconv.Itoa(t.ID)
	if s.isEmitted(t) {
		return name
	}
	// iterative post-order to avoid deep recursion on long chains
	type item struct {
		t    *Term
		next int
	}
	stack := []item{{t, 0}}
	for len(stack) > 0 {
		it := &stack[len(stack)-1]
		cur := it.t
		if it.next < len(cur.Args) {
			a := cur.Args[it.next]
			it.next++
			if a.Op != OpConst && !s.isEmitted(a) {
				if a.Op == OpVar {
					s.ref(a)
				} else {
					stack = append(stack, item{a, 0})
				}
			}
			continue
		}
		stack = stack[:len(stack)-1]
		if s.isEmitted(cur) {
			continue
		}
		s.markEmitted(cur)
		s.define(cur)
	}
	return name
}

// varSMT is the solver-level name of a variable: harness names may be reused at
// different widths in different entries, so the width is part of the symbol.
func varSMT(t *Term) string {
	return "|" + t.Name + "~" + strconv.Itoa(t.W) + "|"
}

func (s *Solver) argRef(t *Term) string {
	switch t.Op {
	case OpConst:
		return constStr(t)
	case OpVar:
		return varSMT(t)
	}
	return "t" + strconv.Itoa(t.ID)
}

func (s *Solver) define(t *Term) {
	b := &s.buf
	if t.Op == OpUF {
		// declare the function symbol once per epoch (tracked through a pseudo var)
		key := Var("uf!"+t.Name+"!"+ufSig(t), 0)
		if !s.isEmitted(key) {
			s.markEmitted(key)
			fmt.Fprintf(b, "(declare-fun |%s| (", t.Name)
			for _, a := range t.Args {
				b.WriteString(sortStr(a.W) + " ")
			}
			fmt.Fprintf(b, ") %s)\n", sortStr(t.W))
		}
	}
	fmt.Fprintf(b, "(define-fun t%d () %s ", t.ID, sortStr(t.W))
	switch t.Op {
	case OpExtract:
		fmt.Fprintf(b, "((_ extract %d %d) %s)", t.Val>>8, t.Val&0xff, s.argRef(t.Args[0]))
	case OpZExt:
		fmt.Fprintf(b, "((_ zero_extend %d) %s)", t.W-t.Args[0].W, s.argRef(t.Args[0]))
	case OpSExt:
		fmt.Fprintf(b, "((_ sign_extend %d) %s)", t.W-t.Args[0].W, s.argRef(t.Args[0]))
	case OpUF:
		if len(t.Args) == 0 {
			fmt.Fprintf(b, "|%s|", t.Name)
		} else {
			fmt.Fprintf(b, "(|%s|", t.Name)
			for _, a := range t.Args {
				b.WriteString(" " + s.argRef(a))
			}
			b.WriteString(")")
		}
	default:
		b.WriteString("(" + opNames[t.Op])
		for _, a := range t.Args {
			b.WriteString(" " + s.argRef(a))
		}
		b.WriteString(")")
	}
	b.WriteString(")\n")
}

func ufSig(t *Term) string {
	var sb strings.Builder
	for _, a := range t.Args {
		fmt.Fprintf(&sb, "%d,", a.W)
	}
	fmt.Fprintf(&sb, ">%d", t.W)
	return sb.String()
}

func (s *Solver) readLine() string {
	// watchdog: a solver that ignores its own time limit is killed (the read then fails
	// and the query is reported as an error, i.e. inconclusive)
	cmd := s.cmd
	timer := time.AfterFunc(time.Duration(s.Timeout+15000)*time.Millisecond, func() {
		if cmd != nil && cmd.Process != nil {
			cmd.Process.Kill()
		}
	})
	defer timer.Stop()
	line, err := s.out.ReadString('\n')
	if err != nil {
		return "(error \"solver died: " + err.Error() + "\")"
	}
	return strings.TrimSpace(line)
}

func cacheKey(pc []*Term, q *Term) string {
	var sb strings.Builder
	for _, p := range pc {
		sb.WriteString(strconv.Itoa(p.ID))
		sb.WriteByte(',')
	}
	sb.WriteByte('|')
	if q != nil {
		sb.WriteString(strconv.Itoa(q.ID))
	}
	return sb.String()
}

// Check decides pc ∧ q. If wantModel and the result is Sat, the returned map
// holds values for all variables in vars.
func (s *Solver) Check(pc []*Term, q *Term, vars []*Term) (Result, map[string]uint64) {
	if q != nil {
		if q.IsFalse() {
			return Unsat, nil
		}
	}
	key := ""
	if vars == nil {
		key = cacheKey(pc, q)
		if r, ok := s.cache[key]; ok {
			s.NCacheHit++
			return r, nil
		}
	}
	if s.preferFallback && len(s.Fallbacks) > 0 {
		t0 := time.Now()
		r, mdl := s.Fallbacks[0].Check(pc, q, vars)
		s.Seconds += time.Since(t0).Seconds()
		if r != Unknown {
			if r == Sat {
				s.NSat++
			} else {
				s.NUnsat++
			}
			if key != "" {
				s.cache[key] = r
			}
			return r, mdl
		}
	}
	start := time.Now()
	s.buf.Reset()
	refs := make([]string, 0, len(pc)+1)
	for _, p := range pc {
		if p.IsTrue() {
			continue
		}
		refs = append(refs, s.ref(p))
	}
	if q != nil && !q.IsTrue() {
		refs = append(refs, s.ref(q))
	}
	var vrefs []string
	for _, v := range vars {
		vrefs = append(vrefs, s.ref(v))
	}
	s.buf.WriteString("(push 1)\n")
	for _, r := range refs {
		s.buf.WriteString("(assert " + r + ")\n")
	}
	s.buf.WriteString("(check-sat)\n")
	s.send(s.buf.String())
	res := Unknown
	line := s.readLine()
	switch {
	case line == "sat":
		res = Sat
	case line == "unsat":
		res = Unsat
	case line == "unknown" || line == "timeout":
		res = Unknown
	default:
		// error: record, drain, restart the process to get back to a clean state
		if strings.Contains(line, "solver died") {
			s.NKilled++ // watchdog: counts as unknown, not as a protocol error
		} else {
			s.Errors = append(s.Errors, line)
		}
		s.restart()
		s.Seconds += time.Since(start).Seconds()
		for _, f := range s.Fallbacks {
			if r2, m2 := f.Check(pc, q, vars); r2 != Unknown {
				s.NFallback++
				return r2, m2
			}
		}
		s.NUnknown++
		return Unknown, nil
	}
	var model map[string]uint64
	if res == Sat && len(vars) > 0 {
		model = map[string]uint64{}
		// one get-value for all variables; values come back in request order
		for lo := 0; lo < len(vars); lo += 200 {
			hi := lo + 200
			if hi > len(vars) {
				hi = len(vars)
			}
			s.send("(get-value (" + strings.Join(vrefs[lo:hi], " ") + "))\n")
			l := s.readLine()
			for strings.Count(l, "(") > strings.Count(l, ")") {
				l += " " + s.readLine()
			}
			vals := valueRe.FindAllStringSubmatch(l, -1)
			if len(vals) != hi-lo {
				s.Errors = append(s.Errors, "get-value: "+l)
				continue
			}
			for i, vm := range vals {
				vs := vm[1]
				val, ok := parseValue("((x " + vs + "))")
				if !ok {
					s.Errors = append(s.Errors, "get-value: "+vs)
				}
				model[vars[lo+i].Name] = val
			}
		}
	}
	s.send("(pop 1)\n")
	if res == Unknown && len(s.Fallbacks) > 0 {
		s.Seconds += time.Since(start).Seconds()
		start = time.Now()
		for _, f := range s.Fallbacks {
			r2, m2 := f.Check(pc, q, vars)
			if r2 != Unknown {
				res, model = r2, m2
				s.NFallback++
				if s.NFallback >= 3 {
					s.preferFallback = true
				}
				break
			}
		}
	}
	switch res {
	case Sat:
		s.NSat++
	case Unsat:
		s.NUnsat++
	default:
		s.NUnknown++
	}
	s.Seconds += time.Since(start).Seconds()
	if key != "" && res != Unknown {
		s.cache[key] = res
	}
	return res, model
}

var valueRe = regexp.MustCompile(`\s(#x[0-9a-fA-F]+|#b[01]+|true|false|\(_ bv\d+ \d+\))\)`)

// parseValue parses "((name #x..))", "((name #b..))", "((name true))", "((name (_ bv5 8)))".
func parseValue(l string) (uint64, bool) {
	l = strings.TrimSpace(l)
	l = strings.TrimSuffix(strings.TrimSuffix(l, ")"), ")")
	l = strings.TrimSpace(l)
	switch {
	case strings.HasSuffix(l, "true"):
		return 1, true
	case strings.HasSuffix(l, "false"):
		return 0, true
	}
	if i := strings.LastIndex(l, "#x"); i >= 0 {
		v, err := strconv.ParseUint(l[i+2:], 16, 64)
		return v, err == nil
	}
	if i := strings.LastIndex(l, "#b"); i >= 0 {
		v, err := strconv.ParseUint(l[i+2:], 2, 64)
		return v, err == nil
	}
	if i := strings.LastIndex(l, "(_ bv"); i >= 0 {
		f := strings.Fields(l[i+5:])
		if len(f) > 0 {
			v, err := strconv.ParseUint(f[0], 10, 64)
			return v, err == nil
		}
	}
	return 0, false
}
