package sym

import (
	"go/types"
)

// The part of package reflect that conf.deepClone is written in (C11): Kind, Type, New, Zero,
// NumField/Field/CanSet, MakeSlice/Cap/Index, MakeMap/MapKeys/MapIndex/SetMapIndex. Together with
// reflect.go (ValueOf, Elem, Len, Set, IsNil, Interface) the real deepClone is interpreted as written.
// A reflect.Type is the value RType; only the functions below accept it.

type RType struct{ T types.Type }

func reflectKind(t types.Type) uint64 {
	switch u := t.Underlying().(type) {
	case *types.Basic:
		switch u.Kind() {
		case types.Bool:
			return 1
		case types.Int:
			return 2
		case types.Int8:
			return 3
		case types.Int16:
			return 4
		case types.Int32:
			return 5
		case types.Int64:
			return 6
		case types.Uint:
			return 7
		case types.Uint8:
			return 8
		case types.Uint16:
			return 9
		case types.Uint32:
			return 10
		case types.Uint64:
			return 11
		case types.Uintptr:
			return 12
		case types.Float32:
			return 13
		case types.Float64:
			return 14
		case types.Complex64:
			return 15
		case types.Complex128:
			return 16
		case types.String:
			return 24
		case types.UnsafePointer:
			return 26
		}
	case *types.Array:
		return 17
	case *types.Chan:
		return 18
	case *types.Signature:
		return 19
	case *types.Interface:
		return 20
	case *types.Map:
		return 21
	case *types.Pointer:
		return 22
	case *types.Slice:
		return 23
	case *types.Struct:
		return 25
	}
	panic(unsupported("reflect.Kind of " + t.String()))
}

func asRType(v Value) types.Type {
	switch x := v.(type) {
	case RType:
		return x.T
	case Iface:
		switch o := x.V.(type) {
		case RType:
			return o.T
		case *NativeObj:
			if t, ok := o.State.(types.Type); ok {
				return t
			}
		}
	}
	panic(unsupported("reflect.Type built outside the modelled API"))
}

// rtypeObj is a reflect.Type: an engine object behind the interface, with the methods the
// configuration code uses (Field, NumField, Kind, Elem, Name, String).
func (m *Machine) rtypeObj(t types.Type) Value {
	o := &NativeObj{Name: "reflect.Type", State: t}
	o.Methods = map[string]func(m *Machine, fr *frame, args []Value) Value{
		"NumField": func(m *Machine, fr *frame, args []Value) Value {
			st, ok := t.Underlying().(*types.Struct)
			if !ok {
				panic(unsupported("reflect.Type.NumField on " + t.String()))
			}
			return BV(64, uint64(st.NumFields()))
		},
		"Field": func(m *Machine, fr *frame, args []Value) Value {
			st, ok := t.Underlying().(*types.Struct)
			if !ok {
				panic(unsupported("reflect.Type.Field on " + t.String()))
			}
			i := int(m.concretize(asTerm(args[len(args)-1]), "reflect.Type.Field"))
			if i < 0 || i >= st.NumFields() {
				m.rtPanic(fr, T.True, "reflect: Field index out of bounds")
			}
			rp := m.Prog.ImportedPackage("reflect")
			if rp == nil || rp.Type("StructField") == nil {
				panic(unsupported("reflect.StructField not in program"))
			}
			sft := rp.Type("StructField").Type()
			sfs := sft.Underlying().(*types.Struct)
			out := zero(sft).(Struct)
			for k := 0; k < sfs.NumFields(); k++ {
				switch sfs.Field(k).Name() {
				case "Name":
					out[k] = MkStr(st.Field(i).Name())
				case "Type":
					out[k] = m.rtypeObj(st.Field(i).Type())
				case "Anonymous":
					out[k] = Bool(st.Field(i).Embedded())
				case "Tag":
					out[k] = MkStr(st.Tag(i))
				case "PkgPath":
					if !st.Field(i).Exported() && st.Field(i).Pkg() != nil {
						out[k] = MkStr(st.Field(i).Pkg().Path())
					}
				}
			}
			return out
		},
		"Kind":   func(m *Machine, fr *frame, args []Value) Value { return BV(64, reflectKind(t)) },
		"String": func(m *Machine, fr *frame, args []Value) Value { return MkStr(t.String()) },
		"Name": func(m *Machine, fr *frame, args []Value) Value {
			if n, ok := t.(*types.Named); ok {
				return MkStr(n.Obj().Name())
			}
			return MkStr("")
		},
		"Elem": func(m *Machine, fr *frame, args []Value) Value {
			switch u := t.Underlying().(type) {
			case *types.Pointer:
				return m.rtypeObj(u.Elem())
			case *types.Slice:
				return m.rtypeObj(u.Elem())
			case *types.Array:
				return m.rtypeObj(u.Elem())
			case *types.Map:
				return m.rtypeObj(u.Elem())
			}
			panic(unsupported("reflect.Type.Elem on " + t.String()))
		},
	}
	return Iface{T: types.Typ[types.UnsafePointer], V: o}
}

func init() {
	reg("(reflect.Value).Kind", func(m *Machine, fr *frame, a []Value) Value {
		rv, ok := a[0].(RV)
		if !ok || rv.T == nil {
			return BV(64, 0) // Invalid
		}
		return BV(64, reflectKind(rv.T))
	})
	reg("(reflect.Value).Type", func(m *Machine, fr *frame, a []Value) Value {
		return m.rtypeObj(asRV(a[0]).T)
	})
	reg("reflect.New", func(m *Machine, fr *frame, a []Value) Value {
		t := asRType(a[0])
		cell := new(Value)
		*cell = zero(t)
		return RV{T: types.NewPointer(t), V: cell}
	})
	reg("reflect.Zero", func(m *Machine, fr *frame, a []Value) Value {
		t := asRType(a[0])
		return RV{T: t, V: zero(t)}
	})
	reg("(reflect.Value).NumField", func(m *Machine, fr *frame, a []Value) Value {
		rv := asRV(a[0])
		st, ok := rv.T.Underlying().(*types.Struct)
		if !ok {
			panic(unsupported("reflect.Value.NumField on " + rv.T.String()))
		}
		return BV(64, uint64(st.NumFields()))
	})
	reg("(reflect.Value).Field", func(m *Machine, fr *frame, a []Value) Value {
		rv := asRV(a[0])
		st, ok := rv.T.Underlying().(*types.Struct)
		if !ok {
			panic(unsupported("reflect.Value.Field on " + rv.T.String()))
		}
		i := int(m.concretize(asTerm(a[1]), "reflect.Field"))
		if i < 0 || i >= st.NumFields() {
			m.rtPanic(fr, T.True, "reflect: Field index out of range")
		}
		f := st.Field(i)
		ro := rv.RO || !f.Exported()
		if rv.Addr != nil {
			return RV{T: f.Type(), Addr: &(*rv.Addr).(Struct)[i], RO: ro}
		}
		return RV{T: f.Type(), V: rv.V.(Struct)[i], RO: ro}
	})
	reg("(reflect.Value).FieldByName", func(m *Machine, fr *frame, a []Value) Value {
		rv := asRV(a[0])
		st, ok := rv.T.Underlying().(*types.Struct)
		if !ok {
			panic(unsupported("reflect.Value.FieldByName on " + rv.T.String()))
		}
		name, isStr := a[1].(Str)
		if !isStr || !name.IsConc() {
			panic(unsupported("reflect.Value.FieldByName with a symbolic name"))
		}
		for i := 0; i < st.NumFields(); i++ {
			f := st.Field(i)
			if f.Name() != name.S {
				continue
			}
			ro := rv.RO || !f.Exported()
			if rv.Addr != nil {
				return RV{T: f.Type(), Addr: &(*rv.Addr).(Struct)[i], RO: ro}
			}
			return RV{T: f.Type(), V: rv.V.(Struct)[i], RO: ro}
		}
		return RV{} // the zero Value: no such field (embedded fields are not searched)
	})
	reg("(reflect.Value).CanSet", func(m *Machine, fr *frame, a []Value) Value {
		rv, ok := a[0].(RV)
		return Bool(ok && rv.T != nil && rv.Addr != nil && !rv.RO)
	})
	reg("(reflect.Value).CanAddr", func(m *Machine, fr *frame, a []Value) Value {
		rv, ok := a[0].(RV)
		return Bool(ok && rv.T != nil && rv.Addr != nil)
	})
	reg("reflect.MakeSlice", func(m *Machine, fr *frame, a []Value) Value {
		t := asRType(a[0])
		st, ok := t.Underlying().(*types.Slice)
		if !ok {
			panic(unsupported("reflect.MakeSlice of " + t.String()))
		}
		n := int(m.concretize(asTerm(a[1]), "reflect.MakeSlice-len"))
		c := int(m.concretize(asTerm(a[2]), "reflect.MakeSlice-cap"))
		if n < 0 || c < n {
			m.rtPanic(fr, T.True, "reflect.MakeSlice: len > cap")
		}
		s := make([]Value, n, c)
		full := s[:c]
		for i := range full {
			full[i] = zero(st.Elem())
		}
		return RV{T: t, V: s}
	})
	reg("(reflect.Value).Cap", func(m *Machine, fr *frame, a []Value) Value {
		rv := asRV(a[0])
		switch x := rv.cur().(type) {
		case []Value:
			return BV(64, uint64(cap(x)))
		case Array:
			return BV(64, uint64(len(x)))
		}
		panic(unsupported("reflect.Value.Cap on " + rv.T.String()))
	})
	reg("(reflect.Value).Index", func(m *Machine, fr *frame, a []Value) Value {
		rv := asRV(a[0])
		i := int(m.concretize(asTerm(a[1]), "reflect.Index"))
		switch x := rv.cur().(type) {
		case []Value:
			if i < 0 || i >= len(x) {
				m.rtPanic(fr, T.True, "reflect: slice index out of range")
			}
			return RV{T: rv.T.Underlying().(*types.Slice).Elem(), Addr: &x[i], RO: rv.RO}
		case Array:
			if i < 0 || i >= len(x) {
				m.rtPanic(fr, T.True, "reflect: array index out of range")
			}
			et := rv.T.Underlying().(*types.Array).Elem()
			if rv.Addr != nil {
				return RV{T: et, Addr: &(*rv.Addr).(Array)[i], RO: rv.RO}
			}
			return RV{T: et, V: x[i], RO: rv.RO}
		}
		panic(unsupported("reflect.Value.Index on " + rv.T.String()))
	})
	reg("reflect.Copy", func(m *Machine, fr *frame, a []Value) Value {
		dst, src := asRV(a[0]), asRV(a[1])
		d, ok1 := dst.cur().([]Value)
		sv, ok2 := src.cur().([]Value)
		if !ok1 || !ok2 {
			panic(unsupported("reflect.Copy on values that are not slices"))
		}
		n := len(d)
		if len(sv) < n {
			n = len(sv)
		}
		for i := 0; i < n; i++ {
			d[i] = copyVal(sv[i]) // element assignment: nested slices, maps and pointers stay shared
		}
		return BV(64, uint64(n))
	})
	reg("reflect.Append", func(m *Machine, fr *frame, a []Value) Value {
		rv := asRV(a[0])
		s0, _ := rv.cur().([]Value)
		out := append([]Value(nil), s0...)
		if extra, ok := a[1].([]Value); ok {
			for _, e := range extra {
				out = append(out, copyVal(asRV(e).cur()))
			}
		}
		return RV{T: rv.T, V: out}
	})
	reg("reflect.MakeMap", func(m *Machine, fr *frame, a []Value) Value {
		t := asRType(a[0])
		mt, ok := t.Underlying().(*types.Map)
		if !ok {
			panic(unsupported("reflect.MakeMap of " + t.String()))
		}
		return RV{T: t, V: &Map{KT: mt.Key()}}
	})
	reg("(reflect.Value).MapKeys", func(m *Machine, fr *frame, a []Value) Value {
		rv := asRV(a[0])
		mp, _ := rv.cur().(*Map)
		kt := rv.T.Underlying().(*types.Map).Key()
		var out []Value
		if mp != nil {
			for _, k := range mp.Keys {
				out = append(out, RV{T: kt, V: k})
			}
		}
		return out
	})
	reg("(reflect.Value).MapIndex", func(m *Machine, fr *frame, a []Value) Value {
		rv := asRV(a[0])
		mp, _ := rv.cur().(*Map)
		if mp == nil {
			return RV{}
		}
		i := m.mapFind(fr, mp, asRV(a[1]).cur())
		if i < 0 {
			return RV{}
		}
		return RV{T: rv.T.Underlying().(*types.Map).Elem(), V: mp.Vals[i]}
	})
	reg("(reflect.Value).SetMapIndex", func(m *Machine, fr *frame, a []Value) Value {
		rv := asRV(a[0])
		mp, _ := rv.cur().(*Map)
		if mp == nil {
			m.rtPanic(fr, T.True, "assignment to entry in nil map")
		}
		m.mapInsert(fr, mp, copyVal(asRV(a[1]).cur()), copyVal(asRV(a[2]).cur()))
		return nil
	})
}

func init() {
	// maps.clone (linked to the runtime): a shallow copy of the map
	reg("maps.clone", func(m *Machine, fr *frame, a []Value) Value {
		it, ok := a[0].(Iface)
		if !ok {
			panic(unsupported("maps.clone: argument"))
		}
		mp, _ := it.V.(*Map)
		if mp == nil {
			return it
		}
		c := &Map{KT: mp.KT, Keys: append([]Value(nil), mp.Keys...), Vals: append([]Value(nil), mp.Vals...)}
		if mp.fast != nil {
			c.fast = map[string]int{}
			for k, i := range mp.fast {
				c.fast[k] = i
			}
		}
		return Iface{T: it.T, V: c}
	})
}
