package sym

import (
	"fmt"
	"go/token"
	"go/types"
	"os"
	"sort"
	"strings"

	"golang.org/x/tools/go/ssa"
)

// pathEnd is thrown (as a Go panic) to terminate the current path.
type pathEnd struct {
	Kind string // done, infeasible, unsupported, budget, blocked, stop
	Msg  string
}

func unsupported(msg string) pathEnd { return pathEnd{"unsupported", msg} }

// goPanic is an interpreted Go panic travelling up the interpreted stack.
type goPanic struct {
	Val   Value  // the panic value (Iface)
	Msg   string // short description
	Where string
	RT    bool // runtime error (bounds, nil, div) as opposed to explicit panic()
}

// Input is one nondeterministic value drawn by the harness on the current path.
type Input struct {
	Name string  `json:"name"`
	Kind string  `json:"kind"` // bool,u8,u16,u32,u64,i8..,choice,bytes,string
	W    int     `json:"w"`
	N    int     `json:"n,omitempty"` // element count for bytes/string
	Vars []*Term `json:"-"`
	// for choice: the concrete decision
	Choice int64 `json:"-"`
}

// Event is a recorded environment effect.
type Event struct {
	Name string
	Args []Value
}

// Config controls one run.
type Config struct {
	MaxSteps    int // per path
	MaxPaths    int
	Bounds      map[string]int
	Tier        string
	Trace       bool
	StopOnFirst bool
	Verbose     bool
}

// Violation found on a path.
type Violation struct {
	Entry  string              `json:"entry"`
	Kind   string              `json:"kind"` // assert | panic
	Label  string              `json:"label"`
	Where  string              `json:"where"`
	Inputs []map[string]string `json:"inputs"`
	// replay outcome
	Reproduced bool   `json:"reproduced"`
	ReplayFile string `json:"replay_file,omitempty"`
	Key        string `json:"key"`
	Obs        string `json:"obs,omitempty"`
}

// Stats for evidence.
type Stats struct {
	Paths          int
	PathEnds       map[string]int
	Decisions      int
	Merged         int
	MergeFail      int
	Steps          int64
	AssertQueries  int
	PanicQueries   int
	BranchQueries  int
	CoverHit       map[string][]map[string]string // label → sample model (ordered inputs)
	AssertSeen     map[string]int
	Funcs          map[string]int // function → times entered
	Stubs          map[string]int
	Unsupported    map[string]int
	Assumes        int
	InitFailed     map[string]string
	ForkSites      map[string]int
	UnknownQueries int
}

func newStats() *Stats {
	return &Stats{PathEnds: map[string]int{}, CoverHit: map[string][]map[string]string{}, AssertSeen: map[string]int{},
		Funcs: map[string]int{}, Stubs: map[string]int{}, Unsupported: map[string]int{}, InitFailed: map[string]string{},
		ForkSites: map[string]int{}}
}

// Machine interprets SSA symbolically.
type Machine struct {
	Prog *ssa.Program
	S    *Solver
	Cfg  Config
	St   *Stats

	globals  map[*ssa.Global]*Value
	inited   map[*ssa.Package]bool
	sliceOf  map[*Value][]Value // unsafe.SliceData side table
	postdoms map[*ssa.Function]*pdomInfo
	skipInit map[string]bool

	// per path
	pc      []*Term
	prefix  []int64
	pos     int
	taken   []int64
	work    [][]int64
	steps   int
	inputs  []*Input
	nameCnt map[string]int
	trace   []Event
	depth   int
	curFn   *ssa.Function

	entry       string
	expectPanic bool
	Violations  []*Violation
	violKeys    map[string]bool
	inMerge     bool
	pathNotes   []string
	clock       int64
	thr         threadState
	fsLinks     map[string]string

	BoundsUsed     map[string]int
	allocLimit     int
	maxAlloc       int
	goMode         string
	pending        []pendingGo
	mapOrder       func(m *Machine, fr *frame, keys []Value) []Value
	unknownAsserts []string
	dupViolations  int
	noMerge        bool
	mergeFails     map[*ssa.If]int
	regions        map[*ssa.BasicBlock]*regionInfo
	pureCache      map[*ssa.Function]bool
	onceDone       map[*Value]bool
	coverByEntry   map[string]map[string][]map[string]string
	lastFrame      *frame
	Sched          Scheduler
	uniq           map[string]*Value
	jsonAppend     *ssa.Function
	fs             map[string]bool
	fsTemp         int
	uuidCount      int
	model          map[string]uint64
	modelValid     bool
	auxVars        []*Term
	sizeCut        int
	sizeAbstracted int
}

// SizeNotes reports how often allocation sizes were cut or abstracted.
func (m *Machine) SizeNotes() (cut, abstracted int) { return m.sizeCut, m.sizeAbstracted }

// SetNoMerge disables region merging.
func (m *Machine) SetNoMerge(b bool) { m.noMerge = b }

// SkipInit marks a package whose initialiser is not executed.
func (m *Machine) SkipInit(path string) { m.skipInit[path] = true }

// CoverSamples returns the satisfying inputs recorded for the covers of an entry.
func (m *Machine) CoverSamples(entry string) map[string][]map[string]string {
	return m.coverByEntry[entry]
}

// NewMachine creates a machine over prog.
func NewMachine(prog *ssa.Program, s *Solver, cfg Config) *Machine {
	if cfg.MaxSteps == 0 {
		cfg.MaxSteps = 20_000_000
	}
	if cfg.MaxPaths == 0 {
		cfg.MaxPaths = 200000
	}
	return &Machine{Prog: prog, S: s, Cfg: cfg, St: newStats(),
		globals: map[*ssa.Global]*Value{}, inited: map[*ssa.Package]bool{},
		sliceOf: map[*Value][]Value{}, postdoms: map[*ssa.Function]*pdomInfo{},
		violKeys: map[string]bool{}, skipInit: map[string]bool{}}
}

type deferred struct {
	fn    Value
	args  []Value
	instr *ssa.Defer
	tail  *deferred
}

type frame struct {
	m                *Machine
	caller           *frame
	fn               *ssa.Function
	block, prevBlock *ssa.BasicBlock
	env              map[ssa.Value]Value
	defers           *deferred
	result           Value
	panicking        bool
	panic            *goPanic
	phitemps         []Value
	curInstr         ssa.Instruction
	skipPhis         bool
	tolerant         bool // package initialiser: failing instructions are skipped
}

func (m *Machine) pos2str(p token.Pos) string {
	if p == token.NoPos {
		return "?"
	}
	ps := m.Prog.Fset.Position(p)
	f := ps.Filename
	if i := strings.Index(f, "/repo/"); i >= 0 {
		f = f[i+6:]
	} else if i := strings.LastIndex(f, "/src/"); i >= 0 {
		f = f[i+5:]
	}
	return fmt.Sprintf("%s:%d", f, ps.Line)
}

func (fr *frame) where() string {
	if fr == nil {
		return "?"
	}
	p := token.NoPos
	if fr.curInstr != nil {
		p = fr.curInstr.Pos()
	}
	if p == token.NoPos {
		// walk back for a position
		return fr.fn.String() + "@" + fr.m.pos2str(fr.fn.Pos())
	}
	return fr.fn.String() + "@" + fr.m.pos2str(p)
}

func (fr *frame) get(key ssa.Value) Value {
	switch key := key.(type) {
	case nil:
		return nil
	case *ssa.Function:
		return key
	case *ssa.Builtin:
		return key
	case *ssa.Const:
		return constValue(key)
	case *ssa.Global:
		return fr.m.global(key)
	}
	if r, ok := fr.env[key]; ok {
		return r
	}
	panic(fmt.Sprintf("get: no value for %T: %v in %s", key, key.Name(), fr.fn))
}

// global returns the cell of a package-level variable, running the package
// initialiser lazily on first touch.
func (m *Machine) global(g *ssa.Global) *Value {
	if c, ok := m.globals[g]; ok {
		return c
	}
	pkg := g.Pkg
	if !m.inited[pkg] {
		m.inited[pkg] = true
		// allocate all globals of the package
		names := make([]string, 0, len(pkg.Members))
		for n := range pkg.Members {
			names = append(names, n)
		}
		sort.Strings(names)
		for _, n := range names {
			if gv, ok := pkg.Members[n].(*ssa.Global); ok {
				cell := new(Value)
				*cell = zero(deref(gv.Type()))
				m.globals[gv] = cell
			}
		}
		m.runInit(pkg)
	}
	c, ok := m.globals[g]
	if !ok {
		// generic or synthetic global not in Members
		cell := new(Value)
		*cell = zero(deref(g.Type()))
		m.globals[g] = cell
		c = cell
	}
	return c
}

func (m *Machine) runInit(pkg *ssa.Package) {
	path := pkg.Pkg.Path()
	if m.skipInit[path] {
		m.St.InitFailed[path] = "skipped by configuration"
		return
	}
	initFn := pkg.Func("init")
	if initFn == nil {
		return
	}
	pkg.Build()
	// run with an empty path condition and outside of the decision log:
	// initialisers are concrete.
	savedPC, savedSteps := m.pc, m.steps
	savedMerge := m.inMerge
	m.inMerge = false
	defer func() {
		m.pc, m.steps = savedPC, savedSteps
		m.inMerge = savedMerge
		if r := recover(); r != nil {
			switch r := r.(type) {
			case pathEnd:
				m.St.InitFailed[path] = r.Kind + ": " + r.Msg
			case *goPanic:
				m.St.InitFailed[path] = "panic: " + r.Msg
			default:
				panic(r)
			}
		}
	}()
	m.pc = nil
	m.call(nil, initFn, nil, nil)
}

func deref(t types.Type) types.Type {
	if p, ok := t.Underlying().(*types.Pointer); ok {
		return p.Elem()
	}
	panic("deref: not a pointer: " + t.String())
}

// ---------------------------------------------------------------------------
// decisions

// choose picks one of mutually exclusive alternatives, forking the exploration.
func (m *Machine) choose(alts []*Term, site string) int {
	return m.chooseEx(alts, site, false)
}

// pcModel returns a cached assignment of this path's variables satisfying the
// path condition, asking the solver when none is cached.
func (m *Machine) pcModel() map[string]uint64 {
	if T.hasUF {
		return nil
	}
	if m.modelValid {
		return m.model
	}
	if len(m.pc) == 0 {
		m.model = map[string]uint64{}
		m.modelValid = true
		return m.model
	}
	r, mdl := m.S.Check(m.pc, nil, m.pathVars())
	if r == Sat {
		if mdl == nil {
			mdl = map[string]uint64{}
		}
		m.model, m.modelValid = mdl, true
		return mdl
	}
	if r == Unsat {
		// every extension of the path condition was checked feasible when it was
		// scheduled: an unsatisfiable one means the replayed prefix did not line up
		panic(unsupported("path condition unsatisfiable after replaying a decision prefix (decision log out of step)"))
	}
	return nil
}

func (m *Machine) pathVars() []*Term {
	vs := m.inputVars()
	return append(vs, m.auxVars...)
}

// addPC extends the path condition, keeping the cached model when it still fits.
func (m *Machine) addPC(c *Term) {
	if m.modelValid && !(Eval(c, m.model, map[*Term]uint64{}) != 0) {
		m.modelValid = false
	}
	m.pc = append(m.pc, c)
}

// chooseEx is choose with the knowledge that the alternatives are exhaustive
// (their disjunction is valid), which saves the last feasibility query.
func (m *Machine) chooseEx(alts []*Term, site string, exhaustive bool) int {
	// syntactic decision
	cnt := 0
	for i, a := range alts {
		if a.IsTrue() {
			return i
		}
		if !a.IsFalse() {
			cnt++
		}
	}
	if cnt == 0 {
		panic(pathEnd{"infeasible", "no alternative at " + site})
	}
	if m.inMerge {
		panic(mergeAbort{"fork inside merge region: " + site})
	}
	if m.pos < len(m.prefix) {
		k := int(m.prefix[m.pos])
		if k < 0 || k >= len(alts) || alts[k].IsFalse() {
			panic(unsupported("decision log out of step at " + site))
		}
		m.pos++
		m.taken = append(m.taken, int64(k))
		m.modelValid = false
		m.pc = append(m.pc, alts[k])
		return k
	}
	byModel := -1
	if mdl := m.pcModel(); mdl != nil {
		memo := map[*Term]uint64{}
		for i, a := range alts {
			if !a.IsFalse() && Eval(a, mdl, memo) != 0 {
				byModel = i
				break
			}
		}
	}
	var feas []int
	unchecked := cnt
	for i, a := range alts {
		if a.IsFalse() {
			continue
		}
		unchecked--
		if i == byModel {
			feas = append(feas, i)
			continue
		}
		if exhaustive && unchecked == 0 && len(feas) == 0 && byModel < 0 {
			// all others are infeasible and the path condition is satisfiable
			feas = append(feas, i)
			continue
		}
		m.St.BranchQueries++
		r, _ := m.S.Check(m.pc, a, nil)
		if r == Unknown {
			m.St.UnknownQueries++
		}
		if r != Unsat {
			feas = append(feas, i)
		}
	}
	if len(feas) == 0 {
		panic(pathEnd{"infeasible", "no feasible alternative at " + site})
	}
	if len(feas) > 1 {
		m.St.ForkSites[site] += len(feas) - 1
	}
	k := feas[0]
	if byModel >= 0 {
		k = byModel
	}
	for _, o := range feas {
		if o == k {
			continue
		}
		p := append(append([]int64{}, m.taken...), int64(o))
		m.work = append(m.work, p)
	}
	m.taken = append(m.taken, int64(k))
	m.St.Decisions++
	if k != byModel {
		m.modelValid = false
	}
	m.pc = append(m.pc, alts[k])
	return k
}

// branch decides a boolean.
func (m *Machine) branch(c *Term, site string) bool {
	if c.IsTrue() {
		return true
	}
	if c.IsFalse() {
		return false
	}
	return m.chooseEx([]*Term{c, Not(c)}, site, true) == 0
}

// concretize forks over the feasible values of t (interpreted as signed when
// signed is set). At most limit values are enumerated.
func (m *Machine) concretize(t *Term, site string) int64 {
	if t.IsConst() {
		return t.Signed()
	}
	if m.inMerge {
		panic(mergeAbort{"concretize inside merge region"})
	}
	if m.pos < len(m.prefix) {
		v := m.prefix[m.pos]
		m.pos++
		m.taken = append(m.taken, v)
		m.modelValid = false
		m.pc = append(m.pc, Eq(t, BV(t.W, uint64(v))))
		return v
	}
	const limit = 300
	var vals []int64
	var excl []*Term
	probe := Var("concretize!probe", t.W)
	for len(vals) < limit {
		q := Eq(probe, t)
		for _, e := range excl {
			q = And(q, e)
		}
		m.St.BranchQueries++
		r, model := m.S.Check(m.pc, q, []*Term{probe})
		if r == Unknown {
			m.St.UnknownQueries++
			panic(unsupported("concretize: solver unknown at " + site))
		}
		if r == Unsat {
			break
		}
		v := model[probe.Name]
		vals = append(vals, sext(v, t.W))
		excl = append(excl, Not(Eq(t, BV(t.W, v))))
	}
	if len(vals) == 0 {
		panic(pathEnd{"infeasible", "concretize: no value at " + site})
	}
	if len(vals) >= limit {
		panic(unsupported(fmt.Sprintf("concretize: more than %d values at %s", limit, site)))
	}
	sort.Slice(vals, func(i, j int) bool { return vals[i] < vals[j] })
	if len(vals) > 1 {
		m.St.ForkSites[site] += len(vals) - 1
	}
	for _, v := range vals[1:] {
		p := append(append([]int64{}, m.taken...), v)
		m.work = append(m.work, p)
	}
	v := vals[0]
	m.taken = append(m.taken, v)
	m.St.Decisions++
	m.addPC(Eq(t, BV(t.W, uint64(v))))
	return v
}

// assume adds c to the path condition; ends the path if infeasible.
func (m *Machine) assume(c *Term) {
	if c.IsTrue() {
		return
	}
	if c.IsFalse() {
		panic(pathEnd{"infeasible", "assume(false)"})
	}
	m.addPC(c)
}

// rtPanic raises an interpreted run-time panic when bad may hold.
func (m *Machine) rtPanic(fr *frame, bad *Term, kind string) {
	if bad.IsFalse() {
		return
	}
	if !bad.IsTrue() {
		m.St.PanicQueries++
		if m.inMerge {
			// inside a merged region: only safe if impossible
			r, _ := m.S.Check(m.pc, bad, nil)
			if r == Unsat {
				return
			}
			panic(mergeAbort{"possible panic in merge region: " + kind})
		}
		if m.chooseEx([]*Term{Not(bad), bad}, "rt:"+kind+"@"+fr.where(), true) == 0 {
			return
		}
	}
	if m.inMerge {
		panic(mergeAbort{"panic in merge region: " + kind})
	}
	panic(&goPanic{Val: m.runtimeError(kind), Msg: "runtime error: " + kind, Where: fr.where() + m.stack(fr), RT: true})
}

func (m *Machine) stack(fr *frame) string {
	var sb strings.Builder
	n := 0
	for f := fr; f != nil && n < 12; f = f.caller {
		if n > 0 {
			sb.WriteString(" <- " + f.where())
		}
		n++
	}
	return sb.String()
}

func (m *Machine) runtimeError(msg string) Value {
	// a value of type runtime.Error would need package runtime's types; use
	// *errors.errorString when available, else a string in an interface.
	return Iface{T: types.Typ[types.String], V: MkStr("runtime error: " + msg)}
}

// ---------------------------------------------------------------------------
// calls

func (m *Machine) step(fr *frame) {
	m.steps++
	m.lastFrame = fr
	if m.steps > m.Cfg.MaxSteps {
		panic(pathEnd{"budget", fmt.Sprintf("instruction budget %d exceeded in %s", m.Cfg.MaxSteps, fr.fn)})
	}
}

// callValue calls a function value.
func (m *Machine) callValue(caller *frame, fn Value, args []Value) Value {
	switch fn := fn.(type) {
	case *ssa.Function:
		if fn == nil {
			m.rtPanic(caller, T.True, "call of nil function")
		}
		return m.call(caller, fn, args, nil)
	case *Closure:
		if fn == nil {
			m.rtPanic(caller, T.True, "call of nil function")
		}
		return m.call(caller, fn.Fn, args, fn.Env)
	case *ssa.Builtin:
		return m.callBuiltin(caller, fn, args)
	case *NativeFn:
		return fn.F(m, caller, args)
	}
	panic(unsupported(fmt.Sprintf("cannot call %T", fn)))
}

// NativeFn is an engine-implemented function value.
type NativeFn struct {
	Name string
	F    func(m *Machine, fr *frame, args []Value) Value
}

func fnKey(fn *ssa.Function) string {
	if o := fn.Origin(); o != nil {
		return o.String()
	}
	return fn.String()
}

func (m *Machine) call(caller *frame, fn *ssa.Function, args []Value, env []Value) Value {
	name := fnKey(fn)
	if fn.Parent() == nil {
		if in, ok := intrinsics[name]; ok {
			fr := &frame{m: m, caller: caller, fn: fn}
			r := in(m, fr, args)
			if _, skip := r.(notIntrinsic); !skip {
				m.St.Stubs[name]++
				return r
			}
		}
		if fn.Name() == "init" && fn.Signature.Recv() == nil && fn.Pkg != nil && caller != nil && caller.fn.Name() == "init" && caller.fn.Pkg != fn.Pkg {
			// lazy initialisation: dependencies are initialised on first touch
			return nil
		}
	}
	if fn.Blocks == nil {
		if fn.Pkg != nil && fn.Synthetic == "" {
			fn.Pkg.Build()
		}
		if fn.Blocks == nil {
			m.St.Unsupported["no body: "+name]++
			panic(unsupported("no code for function " + name))
		}
	}
	if fn.TypeParams().Len() > 0 && len(fn.TypeArgs()) == 0 {
		panic(unsupported("uninstantiated generic " + name))
	}
	m.depth++
	if m.depth > 2000 {
		panic(pathEnd{"budget", "call depth"})
	}
	defer func() { m.depth-- }()
	m.St.Funcs[name]++
	fr := &frame{m: m, caller: caller, fn: fn}
	fr.tolerant = fn.Synthetic == "package initializer"
	fr.env = make(map[ssa.Value]Value, 16)
	fr.block = fn.Blocks[0]
	for _, l := range fn.Locals {
		cell := new(Value)
		*cell = zero(deref(l.Type()))
		fr.env[l] = cell
	}
	for i, p := range fn.Params {
		fr.env[p] = args[i]
	}
	for i, fv := range fn.FreeVars {
		fr.env[fv] = env[i]
	}
	for fr.block != nil {
		m.runFrame(fr)
	}
	return fr.result
}

func (m *Machine) runFrame(fr *frame) {
	defer func() {
		if fr.block == nil {
			return // normal return
		}
		r := recover()
		gp, ok := r.(*goPanic)
		if !ok {
			panic(r) // pathEnd, mergeAbort or an engine bug: propagate
		}
		fr.panicking = true
		fr.panic = gp
		fr.runDefers()
		fr.block = fr.fn.Recover
		if fr.block == nil {
			// recovered, no named results: return zero value
			fr.result = zero(fr.fn.Signature.Results())
			if fr.fn.Signature.Results().Len() == 0 {
				fr.result = nil
			}
		}
	}()
	for {
		nonPhis := fr.executePhis()
		for _, instr := range nonPhis {
			fr.curInstr = instr
			m.step(fr)
			if m.Cfg.Trace {
				if v, ok := instr.(ssa.Value); ok {
					fmt.Fprintf(os.Stderr, "%*s%s = %s\n", m.depth, "", v.Name(), instr)
				} else {
					fmt.Fprintf(os.Stderr, "%*s%s\n", m.depth, "", instr)
				}
			}
			var k continuation
			if fr.tolerant {
				k = m.visitTolerant(fr, instr)
			} else {
				k = m.visitInstr(fr, instr)
			}
			if k == kReturn {
				return
			}
			if m.Cfg.Trace {
				if v, ok := instr.(ssa.Value); ok {
					fmt.Fprintf(os.Stderr, "%*s  → %s\n", m.depth, "", describe(fr.env[v]))
				}
			}
		}
	}
}

func (fr *frame) executePhis() []ssa.Instruction {
	firstNonPhi := -1
	for i, instr := range fr.block.Instrs {
		if _, ok := instr.(*ssa.Phi); !ok {
			firstNonPhi = i
			break
		}
	}
	nonPhis := fr.block.Instrs[firstNonPhi:]
	if fr.skipPhis {
		fr.skipPhis = false
		return nonPhis
	}
	if firstNonPhi > 0 {
		phis := fr.block.Instrs[:firstNonPhi]
		predIndex := -1
		for i, p := range fr.block.Preds {
			if p == fr.prevBlock {
				predIndex = i
				break
			}
		}
		fr.phitemps = fr.phitemps[:0]
		for _, phi := range phis {
			fr.phitemps = append(fr.phitemps, fr.get(phi.(*ssa.Phi).Edges[predIndex]))
		}
		for i, phi := range phis {
			fr.env[phi.(*ssa.Phi)] = fr.phitemps[i]
		}
	}
	return nonPhis
}

func (fr *frame) runDefer(d *deferred) {
	var ok bool
	defer func() {
		if !ok {
			r := recover()
			gp, isGP := r.(*goPanic)
			if !isGP {
				panic(r)
			}
			fr.panicking = true
			fr.panic = gp
		}
	}()
	fr.m.callValue(fr, d.fn, d.args)
	ok = true
}

func (fr *frame) runDefers() {
	for d := fr.defers; d != nil; d = d.tail {
		fr.runDefer(d)
	}
	fr.defers = nil
	if fr.panicking {
		panic(fr.panic)
	}
}

func (m *Machine) doRecover(caller *frame) Value {
	// recover() is called by a deferred function (caller) run by a panicking frame.
	if caller != nil && !caller.panicking && caller.caller != nil && caller.caller.panicking {
		caller.caller.panicking = false
		p := caller.caller.panic
		caller.caller.panic = nil
		return p.Val
	}
	return Iface{}
}

type continuation int

const (
	kNext continuation = iota
	kReturn
	kJump
)
