package sym

import (
	"go/types"
	"strings"
	"sync"
)

// Cooperative goroutines with a virtual clock (vnd.GoMode("threads")).
//
// Every interpreted goroutine runs on a host goroutine of its own, but exactly one of them holds
// the baton at any time: a goroutine runs until it blocks (receive on an empty channel, select with
// no ready case, time.Sleep) or ends, then the next runnable one (round robin) continues. There is
// no pre-emption: interleavings other than "run until you block" are not explored. Time is virtual:
// it advances only when every goroutine is blocked, to the earliest wake-up instant; which sleeper
// is earliest is a solver decision when the instants are symbolic. time.Now carries the clock as
// its monotonic reading, so Sub/Before/After/Since are plain integer terms.

type threadKill struct{}

// notIntrinsic is returned by an intrinsic that declines: the real body is interpreted.
type notIntrinsic struct{}

type threadForward struct{ r interface{} }

type thread struct {
	id     int
	resume chan struct{}
	done   bool
	wake   *Term       // sleeping until the clock reaches this instant
	ready  func() bool // blocked until this holds
	desc   string
}

type vtimer struct {
	wake   *Term
	ch     *Chan
	active bool
	elemT  types.Type
}

type threadState struct {
	condGen     map[*Value]int
	timers      map[*Value]*vtimer
	timerOrder  []*vtimer
	threads     []*thread
	cur         *thread
	vclock      *Term
	threadPanic interface{}
	killed      bool
	wg          sync.WaitGroup
}

func (m *Machine) threadsOn() bool { return m.goMode == "threads" }

func (m *Machine) mainThread() *thread {
	if len(m.thr.threads) == 0 {
		t := &thread{id: 0, resume: make(chan struct{})}
		m.thr.threads = []*thread{t}
		m.thr.cur = t
	}
	if m.thr.vclock == nil {
		m.thr.vclock = BV(64, 1_000_000_000) // one second after the monotonic origin
	}
	return m.thr.threads[0]
}

func (m *Machine) spawnThread(fn Value, args []Value) {
	m.mainThread()
	t := &thread{id: len(m.thr.threads), resume: make(chan struct{})}
	m.thr.threads = append(m.thr.threads, t)
	m.thr.wg.Add(1)
	go func() {
		defer m.thr.wg.Done()
		<-t.resume
		if m.thr.killed {
			t.done = true
			return
		}
		defer func() {
			r := recover()
			t.done = true
			if _, kill := r.(threadKill); kill {
				return
			}
			if r != nil {
				if gp, ok := r.(*goPanic); ok {
					// an uncaught panic in a goroutine ends the program: reported by the main thread
					m.thr.threadPanic = gp
				} else {
					m.thr.threadPanic = r
				}
			}
			m.handOver(t)
		}()
		m.callValue(nil, fn, args)
	}()
}

// handOver passes the baton on from a goroutine that has ended.
func (m *Machine) handOver(t *thread) {
	main := m.thr.threads[0]
	next := main
	if m.thr.threadPanic == nil {
		func() {
			defer func() {
				if r := recover(); r != nil {
					m.thr.threadPanic = r
					next = main
				}
			}()
			next = m.pickNext(t)
			if next == nil {
				m.thr.threadPanic = pathEnd{"blocked", "all goroutines are asleep; main: " + main.desc}
				next = main
			}
		}()
	}
	m.thr.cur = next
	next.resume <- struct{}{}
}

// pickNext returns the goroutine that runs next: the first runnable one after `from` in round-robin
// order (from itself last), else the sleeper with the earliest wake-up (the clock advances to it).
func (m *Machine) pickNext(from *thread) *thread {
	n := len(m.thr.threads)
	for k := 1; k <= n; k++ {
		c := m.thr.threads[(from.id+k)%n]
		if c.done || c.wake != nil {
			continue
		}
		if c.ready == nil || c.ready() {
			return c
		}
	}
	var best *thread
	var bestWake *Term
	for _, c := range m.thr.threads {
		if c.done || c.wake == nil {
			continue
		}
		if bestWake == nil || m.branch(Cmp(OpSlt, c.wake, bestWake), "scheduler: earlier wake-up") {
			best, bestWake = c, c.wake
		}
	}
	var bestTimer *vtimer
	for _, tm := range m.thr.timerOrder {
		if !tm.active {
			continue
		}
		if bestWake == nil || m.branch(Cmp(OpSlt, tm.wake, bestWake), "scheduler: earlier timer") {
			best, bestTimer, bestWake = nil, tm, tm.wake
		}
	}
	if bestTimer != nil {
		// the timer fires: its channel gets the instant, whoever waits for it becomes runnable
		m.thr.vclock = bestWake
		bestTimer.active = false
		if len(bestTimer.ch.Buf) == 0 {
			bestTimer.ch.Buf = append(bestTimer.ch.Buf, timeStruct(bestTimer.elemT, m.thr.vclock))
		}
		return m.pickNext(from)
	}
	if best != nil {
		m.thr.vclock = best.wake
		best.wake = nil
		return best
	}
	return nil
}

// block suspends the current goroutine until its wake/ready condition holds.
func (m *Machine) block(desc string) {
	t := m.thr.cur
	t.desc = desc
	for {
		next := m.pickNext(t)
		if next == t {
			t.ready, t.wake = nil, nil
			return
		}
		if next == nil {
			if t.id == 0 {
				panic(pathEnd{"blocked", desc})
			}
			m.thr.threadPanic = pathEnd{"blocked", "all goroutines are asleep; main: " + m.thr.threads[0].desc}
			next = m.thr.threads[0]
		}
		m.thr.cur = next
		next.resume <- struct{}{}
		<-t.resume
		m.thr.cur = t
		if m.thr.killed {
			panic(threadKill{})
		}
		if t.id == 0 && m.thr.threadPanic != nil {
			p := m.thr.threadPanic
			m.thr.threadPanic = nil
			panic(threadForward{p})
		}
		if t.wake == nil && (t.ready == nil || t.ready()) {
			t.ready = nil
			return
		}
	}
}

// waitFor blocks the current goroutine until cond holds; false if threads are off.
func (m *Machine) waitFor(cond func() bool, desc string) bool {
	if !m.threadsOn() {
		return false
	}
	m.mainThread()
	m.thr.cur.ready = cond
	m.block(desc)
	return true
}

// killThreads ends every goroutine of the path that is over and waits for their host goroutines.
func (m *Machine) killThreads() {
	if len(m.thr.threads) == 0 {
		return
	}
	m.thr.killed = true
	for _, t := range m.thr.threads[1:] {
		if !t.done {
			t.resume <- struct{}{}
		}
	}
	m.thr.wg.Wait()
	m.thr = threadState{}
}

func timeStruct(t types.Type, mono *Term) Value {
	st := t.Underlying().(*types.Struct)
	out := make(Struct, st.NumFields())
	for i := 0; i < st.NumFields(); i++ {
		switch st.Field(i).Name() {
		case "wall":
			// hasMonotonic | seconds since 1885 (2023-01-01) << 30 | 0 ns
			out[i] = BV(64, 1<<63|uint64(4354819200)<<30)
		case "ext":
			out[i] = mono
		default:
			out[i] = zero(st.Field(i).Type())
		}
	}
	return out
}

func init() {
	reg("time.Since", func(m *Machine, fr *frame, a []Value) Value {
		if !m.threadsOn() {
			return notIntrinsic{}
		}
		m.mainThread()
		t := a[0].(Struct)
		st := fr.fn.Signature.Params().At(0).Type().Underlying().(*types.Struct)
		var wall, ext *Term
		for i := 0; i < st.NumFields(); i++ {
			switch st.Field(i).Name() {
			case "wall":
				wall = asTerm(t[i])
			case "ext":
				ext = asTerm(t[i])
			}
		}
		if m.branch(Eq(Bin(OpLShr, wall, BV(64, 63)), BV(64, 1)), "time.Since: monotonic reading") {
			return Bin(OpSub, m.thr.vclock, ext)
		}
		return BV(64, 1<<63-1) // a time without monotonic reading (the zero Time): the distant past
	})
	reg("time.Sleep", func(m *Machine, fr *frame, a []Value) Value {
		if !m.threadsOn() {
			return nil
		}
		m.mainThread()
		d := asTerm(a[0])
		if !m.branch(Cmp(OpSlt, BV(64, 0), d), "time.Sleep: positive duration") {
			return nil
		}
		if m.inMerge {
			panic(mergeAbort{"sleep in merge region"})
		}
		m.thr.cur.wake = Bin(OpAdd, m.thr.vclock, d)
		m.block("time.Sleep at " + fr.where())
		return nil
	})
	// timers on the virtual clock (threads mode only; otherwise timers never fire, see tolerant.go)
	prevNewTimer := func(m *Machine, fr *frame) Value {
		cell := new(Value)
		*cell = zero(deref(fr.fn.Signature.Results().At(0).Type()))
		return cell
	}
	reg("time.NewTimer", func(m *Machine, fr *frame, a []Value) Value {
		cell := prevNewTimer(m, fr).(*Value)
		if !m.threadsOn() {
			return cell
		}
		m.mainThread()
		tt := deref(fr.fn.Signature.Results().At(0).Type()).Underlying().(*types.Struct)
		var elemT types.Type
		ci := -1
		for i := 0; i < tt.NumFields(); i++ {
			if tt.Field(i).Name() == "C" {
				ci = i
				elemT = tt.Field(i).Type().Underlying().(*types.Chan).Elem()
			}
		}
		ch := &Chan{Name: "timer@" + fr.caller.where(), Cap: 1, ElemT: elemT}
		(*cell).(Struct)[ci] = ch
		tm := &vtimer{wake: Bin(OpAdd, m.thr.vclock, asTerm(a[0])), ch: ch, active: true, elemT: elemT}
		if m.thr.timers == nil {
			m.thr.timers = map[*Value]*vtimer{}
		}
		m.thr.timers[cell] = tm
		m.thr.timerOrder = append(m.thr.timerOrder, tm)
		return cell
	})
	reg("(*time.Timer).Stop", func(m *Machine, fr *frame, a []Value) Value {
		tm := m.thr.timers[a[0].(*Value)]
		if tm == nil {
			return T.False
		}
		was := tm.active
		tm.active = false
		tm.ch.Buf = nil // Go 1.23: no stale value is received after Stop
		if was {
			return T.True
		}
		return T.False
	})
	reg("(*time.Timer).Reset", func(m *Machine, fr *frame, a []Value) Value {
		tm := m.thr.timers[a[0].(*Value)]
		if tm == nil {
			return T.False
		}
		was := tm.active
		tm.active = true
		tm.ch.Buf = nil
		tm.wake = Bin(OpAdd, m.thr.vclock, asTerm(a[1]))
		if was {
			return T.True
		}
		return T.False
	})
	// sync.Cond in threads mode: Wait blocks until a later Signal/Broadcast on the same Cond
	// (L is unlocked and re-locked by the real code; locks are no-ops under cooperative scheduling)
	reg("(*sync.Cond).Wait", func(m *Machine, fr *frame, a []Value) Value {
		if !m.threadsOn() {
			panic(pathEnd{"blocked", "sync.Cond.Wait at " + fr.where()})
		}
		c := a[0].(*Value)
		if m.thr.condGen == nil {
			m.thr.condGen = map[*Value]int{}
		}
		g := m.thr.condGen[c]
		m.waitFor(func() bool { return m.thr.condGen[c] != g }, "sync.Cond.Wait at "+fr.where())
		return nil
	})
	for _, n := range []string{"(*sync.Cond).Broadcast", "(*sync.Cond).Signal"} {
		reg(n, func(m *Machine, fr *frame, a []Value) Value {
			if m.thr.condGen == nil {
				m.thr.condGen = map[*Value]int{}
			}
			m.thr.condGen[a[0].(*Value)]++
			return nil
		})
	}
	// counterdumper: a once-a-second reporting goroutine that only logs
	reg("(*"+modPathConst+"/internal/counterdumper.Dumper).Start", noop)
	reg("(*"+modPathConst+"/internal/counterdumper.Dumper).Stop", noop)
	// fsnotify is inotify: the harness plays its part; closing the stand-in is a no-op
	reg("(*github.com/fsnotify/fsnotify.Watcher).Close", func(m *Machine, fr *frame, a []Value) Value { return Iface{} })
	// filepath.EvalSymlinks over the file-system model (symbolic links: m.fsLinks)
	reg("path/filepath.EvalSymlinks", func(m *Machine, fr *frame, a []Value) Value {
		p := m.fsPath(a[0], "filepath.EvalSymlinks")
		for i := 0; i < 8; i++ {
			if tgt, ok := m.fsLinks[p]; ok {
				if !strings.HasPrefix(tgt, "/") {
					tgt = p[:strings.LastIndex(p, "/")+1] + tgt
				}
				p = tgt
				continue
			}
			break
		}
		if m.fs[p] {
			return Tuple{MkStr(p), Iface{}}
		}
		return Tuple{MkStr(""), m.fsErr(fr, "lstat "+p+": no such file or directory")}
	})
	reg("os.Symlink", func(m *Machine, fr *frame, a []Value) Value {
		old := m.fsPath(a[0], "os.Symlink")
		nw := m.fsPath(a[1], "os.Symlink")
		if m.fsLinks == nil {
			m.fsLinks = map[string]string{}
		}
		if _, ok := m.fsLinks[nw]; ok || m.fs[nw] {
			return m.fsErr(fr, "symlink "+old+" "+nw+": file exists")
		}
		m.fsLinks[nw] = old
		return Iface{}
	})
	reg("os.Rename", func(m *Machine, fr *frame, a []Value) Value {
		from := m.fsPath(a[0], "os.Rename")
		to := m.fsPath(a[1], "os.Rename")
		if tgt, ok := m.fsLinks[from]; ok {
			delete(m.fsLinks, from)
			delete(m.fs, to)
			m.fsLinks[to] = tgt
			return Iface{}
		}
		if m.fs[from] {
			delete(m.fs, from)
			delete(m.fsLinks, to)
			m.fs[to] = true
			return Iface{}
		}
		return m.fsErr(fr, "rename "+from+" "+to+": no such file or directory")
	})
}
