package sym

import (
	"fmt"
	"go/types"
	"strings"
)

func init() {
	// ---- sync: single actor, locks are no-ops
	for _, n := range []string{
		"(*sync.Mutex).Lock", "(*sync.Mutex).Unlock", "(*sync.RWMutex).Lock", "(*sync.RWMutex).Unlock",
		"(*sync.RWMutex).RLock", "(*sync.RWMutex).RUnlock", "(*sync.WaitGroup).Add", "(*sync.WaitGroup).Done",
		"(*sync.WaitGroup).Wait", "(*sync.WaitGroup).Go", "(*sync.Cond).Broadcast", "(*sync.Cond).Signal",
		"runtime.SetFinalizer", "runtime.KeepAlive", "runtime.GC", "runtime.Gosched",
		"time.Sleep", "internal/race.Acquire", "internal/race.Release", "internal/race.ReleaseMerge",
		"internal/race.Disable", "internal/race.Enable", "internal/race.Read", "internal/race.Write",
		"internal/race.ReadRange", "internal/race.WriteRange", "internal/race.Errors",
		"os.runtime_beforeExit",
	} {
		reg(n, noop)
	}
	reg("(*sync.Mutex).TryLock", func(m *Machine, fr *frame, a []Value) Value { return T.True })
	reg("(*sync.Once).Do", func(m *Machine, fr *frame, a []Value) Value {
		o := a[0].(*Value)
		// use the first field cell as the done flag holder via a side table
		if m.onceDone == nil {
			m.onceDone = map[*Value]bool{}
		}
		if m.onceDone[o] {
			return nil
		}
		m.onceDone[o] = true
		m.callValue(fr, a[1], nil)
		return nil
	})
	reg("(*sync.Pool).Get", func(m *Machine, fr *frame, a []Value) Value {
		p := a[0].(*Value)
		st := (*p).(Struct)
		newFn := st[len(st)-1]
		if isNilFunc(newFn) {
			return Iface{}
		}
		return m.callValue(fr, newFn, nil)
	})
	reg("(*sync.Pool).Put", noop)

	// ---- sync/atomic
	for _, ty := range []string{"Int32", "Int64", "Uint32", "Uint64", "Uintptr", "Pointer"} {
		ty := ty
		reg("sync/atomic.Load"+ty, func(m *Machine, fr *frame, a []Value) Value { return m.load(fr, a[0]) })
		reg("sync/atomic.Store"+ty, func(m *Machine, fr *frame, a []Value) Value { m.store(fr, a[0], a[1]); return nil })
		reg("sync/atomic.Swap"+ty, func(m *Machine, fr *frame, a []Value) Value {
			old := m.load(fr, a[0])
			m.store(fr, a[0], a[1])
			return old
		})
		reg("sync/atomic.CompareAndSwap"+ty, func(m *Machine, fr *frame, a []Value) Value {
			old := m.load(fr, a[0])
			var eq *Term
			if ty == "Pointer" {
				eq = m.valEq(nil, old, a[1])
			} else {
				eq = Eq(asTerm(old), asTerm(a[1]))
			}
			if m.branch(eq, "cas") {
				m.store(fr, a[0], a[2])
				return T.True
			}
			return T.False
		})
		if ty != "Pointer" {
			reg("sync/atomic.Add"+ty, func(m *Machine, fr *frame, a []Value) Value {
				n := Bin(OpAdd, asTerm(m.load(fr, a[0])), asTerm(a[1]))
				m.store(fr, a[0], n)
				return n
			})
			reg("sync/atomic.And"+ty, func(m *Machine, fr *frame, a []Value) Value {
				old := asTerm(m.load(fr, a[0]))
				m.store(fr, a[0], Bin(OpAnd, old, asTerm(a[1])))
				return old
			})
			reg("sync/atomic.Or"+ty, func(m *Machine, fr *frame, a []Value) Value {
				old := asTerm(m.load(fr, a[0]))
				m.store(fr, a[0], Bin(OpOr, old, asTerm(a[1])))
				return old
			})
		}
	}
	reg("internal/abi.NoEscape", func(m *Machine, fr *frame, a []Value) Value { return a[0] })
	reg("internal/abi.Escape", func(m *Machine, fr *frame, a []Value) Value { return a[0] })
	reg("internal/abi.FuncPCABIInternal", func(m *Machine, fr *frame, a []Value) Value { return BV(64, 1) })
	reg("internal/abi.FuncPCABI0", func(m *Machine, fr *frame, a []Value) Value { return BV(64, 1) })

	// ---- internal/bytealg
	reg("internal/bytealg.IndexByte", func(m *Machine, fr *frame, a []Value) Value {
		return m.indexByte(fr, sliceTerms(a[0].([]Value)), asTerm(a[1]))
	})
	reg("internal/bytealg.IndexByteString", func(m *Machine, fr *frame, a []Value) Value {
		return m.indexByte(fr, a[0].(Str).Bytes(), asTerm(a[1]))
	})
	reg("internal/bytealg.LastIndexByte", func(m *Machine, fr *frame, a []Value) Value {
		return m.lastIndexByte(fr, sliceTerms(a[0].([]Value)), asTerm(a[1]))
	})
	reg("internal/bytealg.LastIndexByteString", func(m *Machine, fr *frame, a []Value) Value {
		return m.lastIndexByte(fr, a[0].(Str).Bytes(), asTerm(a[1]))
	})
	reg("internal/bytealg.Count", func(m *Machine, fr *frame, a []Value) Value {
		return countByte(sliceTerms(a[0].([]Value)), asTerm(a[1]))
	})
	reg("internal/bytealg.CountString", func(m *Machine, fr *frame, a []Value) Value {
		return countByte(a[0].(Str).Bytes(), asTerm(a[1]))
	})
	reg("internal/bytealg.Equal", func(m *Machine, fr *frame, a []Value) Value {
		return strEq(StrFromTerms(sliceTerms(a[0].([]Value))), StrFromTerms(sliceTerms(a[1].([]Value))))
	})
	reg("internal/bytealg.Compare", func(m *Machine, fr *frame, a []Value) Value {
		x, y := StrFromTerms(sliceTerms(a[0].([]Value))), StrFromTerms(sliceTerms(a[1].([]Value)))
		return m.compare3(fr, x, y)
	})
	reg("internal/bytealg.CompareString", func(m *Machine, fr *frame, a []Value) Value {
		return m.compare3(fr, a[0].(Str), a[1].(Str))
	})
	reg("internal/stringslite.Index", func(m *Machine, fr *frame, a []Value) Value {
		return m.indexStr(fr, a[0].(Str), a[1].(Str))
	})
	reg("strings.Index", func(m *Machine, fr *frame, a []Value) Value {
		return m.indexStr(fr, a[0].(Str), a[1].(Str))
	})
	reg("bytes.Index", func(m *Machine, fr *frame, a []Value) Value {
		return m.indexStr(fr, StrFromTerms(sliceTerms(a[0].([]Value))), StrFromTerms(sliceTerms(a[1].([]Value))))
	})
	reg("internal/bytealg.IndexString", func(m *Machine, fr *frame, a []Value) Value {
		return m.indexStr(fr, a[0].(Str), a[1].(Str))
	})
	reg("internal/bytealg.Index", func(m *Machine, fr *frame, a []Value) Value {
		return m.indexStr(fr, StrFromTerms(sliceTerms(a[0].([]Value))), StrFromTerms(sliceTerms(a[1].([]Value))))
	})
	reg("internal/bytealg.MakeNoZero", func(m *Machine, fr *frame, a []Value) Value {
		n := int(m.concretize(asTerm(a[0]), "MakeNoZero"))
		s := make([]Value, n)
		for i := range s {
			s[i] = BV(8, 0)
		}
		return s
	})
	reg("strings.Compare", func(m *Machine, fr *frame, a []Value) Value {
		return m.compare3(fr, a[0].(Str), a[1].(Str))
	})

	// ---- runtime odds and ends
	reg("runtime.GOMAXPROCS", func(m *Machine, fr *frame, a []Value) Value { return BV(64, 1) })
	reg("runtime.NumCPU", func(m *Machine, fr *frame, a []Value) Value { return BV(64, 1) })
	reg("runtime.Caller", func(m *Machine, fr *frame, a []Value) Value {
		return Tuple{BV(64, 0), MkStr("?"), BV(64, 0), T.False}
	})
	reg("internal/godebug.(*Setting).Value", func(m *Machine, fr *frame, a []Value) Value { return MkStr("") })
	reg("(*internal/godebug.Setting).Value", func(m *Machine, fr *frame, a []Value) Value { return MkStr("") })
	reg("(*internal/godebug.Setting).IncNonDefault", noop)
	reg("internal/godebug.New", func(m *Machine, fr *frame, a []Value) Value {
		cell := new(Value)
		t := m.Prog.ImportedPackage("internal/godebug").Type("Setting").Type()
		*cell = zero(t)
		return cell
	})
	reg("os.Getenv", func(m *Machine, fr *frame, a []Value) Value { return MkStr("") })
	reg("os.LookupEnv", func(m *Machine, fr *frame, a []Value) Value { return Tuple{MkStr(""), T.False} })
	reg("syscall.Getenv", func(m *Machine, fr *frame, a []Value) Value { return Tuple{MkStr(""), T.False} })
	reg("os.Exit", func(m *Machine, fr *frame, a []Value) Value {
		panic(pathEnd{"done", "os.Exit"})
	})

	// ---- fmt (cut on purpose; formatting is modelled only as far as strings go)
	reg("fmt.Errorf", func(m *Machine, fr *frame, a []Value) Value {
		format := a[0].(Str)
		args, _ := a[1].([]Value)
		msg := m.sprintf(fr, format, args)
		if format.IsConc() && strings.Contains(format.S, "%w") {
			for _, x := range args {
				if itf, ok := x.(Iface); ok && itf.T != nil && m.isError(itf.T) {
					pkg := m.Prog.ImportedPackage("fmt")
					if pkg != nil && pkg.Type("wrapError") != nil {
						cell := new(Value)
						*cell = Struct{msg, itf}
						return Iface{T: types.NewPointer(pkg.Type("wrapError").Type()), V: cell}
					}
				}
			}
		}
		return m.newError(fr, msg)
	})
	reg("fmt.Sprintf", func(m *Machine, fr *frame, a []Value) Value {
		args, _ := a[1].([]Value)
		return m.sprintf(fr, a[0].(Str), args)
	})
	reg("fmt.Sprint", func(m *Machine, fr *frame, a []Value) Value {
		args, _ := a[0].([]Value)
		var out Str
		for _, x := range args {
			out = concatStr(out, m.fmtValue(fr, x, 'v', ""))
		}
		return out
	})
	reg("fmt.Sprintln", func(m *Machine, fr *frame, a []Value) Value {
		args, _ := a[0].([]Value)
		var out Str
		for i, x := range args {
			if i > 0 {
				out = concatStr(out, MkStr(" "))
			}
			out = concatStr(out, m.fmtValue(fr, x, 'v', ""))
		}
		return concatStr(out, MkStr("\n"))
	})
	for _, n := range []string{"fmt.Println", "fmt.Printf", "fmt.Print", "log.Printf", "log.Println", "log.Print"} {
		reg(n, func(m *Machine, fr *frame, a []Value) Value { return Tuple{BV(64, 0), Iface{}} })
	}
	reg("log.Printf", noop)
	reg("log.Println", noop)
	reg("log.Print", noop)

	// ---- errors
	reg("errors.Is", func(m *Machine, fr *frame, a []Value) Value {
		return m.errorsIs(fr, a[0].(Iface), a[1].(Iface))
	})
	reg("errors.As", func(m *Machine, fr *frame, a []Value) Value {
		return m.errorsAs(fr, a[0].(Iface), a[1].(Iface))
	})
}

func sliceTerms(s []Value) []*Term {
	r := make([]*Term, len(s))
	for i, v := range s {
		r[i] = v.(*Term)
	}
	return r
}

func (m *Machine) isError(t types.Type) bool {
	return m.hasMethod(t, "Error") != nil
}

func (m *Machine) indexByte(fr *frame, b []*Term, c *Term) Value {
	for i, x := range b {
		if m.branch(Eq(x, c), "IndexByte") {
			return BV(64, uint64(i))
		}
	}
	return BV(64, ^uint64(0))
}

func (m *Machine) lastIndexByte(fr *frame, b []*Term, c *Term) Value {
	for i := len(b) - 1; i >= 0; i-- {
		if m.branch(Eq(b[i], c), "LastIndexByte") {
			return BV(64, uint64(i))
		}
	}
	return BV(64, ^uint64(0))
}

func countByte(b []*Term, c *Term) Value {
	r := BV(64, 0)
	for _, x := range b {
		r = Bin(OpAdd, r, Ite(Eq(x, c), BV(64, 1), BV(64, 0)))
	}
	return r
}

func (m *Machine) compare3(fr *frame, x, y Str) Value {
	if x.IsConc() && y.IsConc() {
		return BV(64, uint64(int64(strings.Compare(x.S, y.S))))
	}
	eq := strEq(x, y)
	lt := m.strLess(x, y, false)
	return Ite(eq, BV(64, 0), Ite(lt, BV(64, ^uint64(0)), BV(64, 1)))
}

func (m *Machine) indexStr(fr *frame, s, sep Str) Value {
	if s.IsConc() && sep.IsConc() {
		return BV(64, uint64(int64(strings.Index(s.S, sep.S))))
	}
	n := sep.Len()
	for i := 0; i+n <= s.Len(); i++ {
		if m.branch(strEq(s.slice(i, i+n), sep), "Index") {
			return BV(64, uint64(i))
		}
	}
	return BV(64, ^uint64(0))
}

// ---------------------------------------------------------------------------
// errors.Is / errors.As

func (m *Machine) unwrapErr(fr *frame, e Iface) []Iface {
	if e.T == nil {
		return nil
	}
	f := m.hasMethod(e.T, "Unwrap")
	if f == nil {
		return nil
	}
	r := m.call(fr, f, []Value{e.V}, nil)
	switch r := r.(type) {
	case Iface:
		if r.T == nil {
			return nil
		}
		return []Iface{r}
	case []Value:
		var out []Iface
		for _, x := range r {
			if it := x.(Iface); it.T != nil {
				out = append(out, it)
			}
		}
		return out
	}
	return nil
}

func (m *Machine) errorsIs(fr *frame, err, target Iface) Value {
	if err.T == nil || target.T == nil {
		return Bool(err.T == nil && target.T == nil)
	}
	comparable := types.Comparable(target.T)
	var walk func(e Iface) bool
	walk = func(e Iface) bool {
		if comparable && types.Identical(e.T, target.T) {
			if m.branch(m.valEq(e.T, e.V, target.V), "errors.Is") {
				return true
			}
		}
		if f := m.hasMethod(e.T, "Is"); f != nil {
			r := m.call(fr, f, []Value{e.V, target}, nil)
			if m.branch(asTerm(r), "errors.Is/Is") {
				return true
			}
		}
		for _, u := range m.unwrapErr(fr, e) {
			if walk(u) {
				return true
			}
		}
		return false
	}
	return Bool(walk(err))
}

func (m *Machine) errorsAs(fr *frame, err, target Iface) Value {
	if err.T == nil {
		return T.False
	}
	if target.T == nil {
		m.rtPanic(fr, T.True, "errors: target cannot be nil")
	}
	pt, ok := target.T.Underlying().(*types.Pointer)
	if !ok {
		m.rtPanic(fr, T.True, "errors: target must be a non-nil pointer")
	}
	tt := pt.Elem()
	cell := target.V.(*Value)
	var walk func(e Iface) bool
	walk = func(e Iface) bool {
		if it, isI := tt.Underlying().(*types.Interface); isI {
			if m.implementsViaSSA(e.T, it) {
				*cell = e
				return true
			}
		} else if types.Identical(e.T, tt) {
			*cell = copyVal(e.V)
			return true
		}
		for _, u := range m.unwrapErr(fr, e) {
			if walk(u) {
				return true
			}
		}
		return false
	}
	return Bool(walk(err))
}

// ---------------------------------------------------------------------------
// minimal Sprintf

func (m *Machine) sprintf(fr *frame, format Str, args []Value) Str {
	if !format.IsConc() {
		return MkStr("<symbolic format>")
	}
	f := format.S
	var out Str
	argi := 0
	for i := 0; i < len(f); i++ {
		c := f[i]
		if c != '%' {
			j := i
			for j < len(f) && f[j] != '%' {
				j++
			}
			out = concatStr(out, MkStr(f[i:j]))
			i = j - 1
			continue
		}
		// parse flags/width/precision
		j := i + 1
		for j < len(f) && strings.IndexByte("+-# 0123456789.*", f[j]) >= 0 {
			j++
		}
		if j >= len(f) {
			out = concatStr(out, MkStr("%!(NOVERB)"))
			break
		}
		verb := f[j]
		spec := f[i+1 : j]
		i = j
		if verb == '%' {
			out = concatStr(out, MkStr("%"))
			continue
		}
		if argi >= len(args) {
			out = concatStr(out, MkStr("%!"+string(verb)+"(MISSING)"))
			continue
		}
		out = concatStr(out, m.fmtValue(fr, args[argi], verb, spec))
		argi++
	}
	return out
}

// fmtValue formats one argument (an interface value holding the operand).
func (m *Machine) fmtValue(fr *frame, v Value, verb byte, spec string) Str {
	itf, ok := v.(Iface)
	if !ok {
		return MkStr("<?>")
	}
	if itf.T == nil {
		return MkStr("<nil>")
	}
	if verb == 'T' {
		return MkStr(itf.T.String())
	}
	if verb == 'v' || verb == 's' || verb == 'w' || verb == 'q' {
		if f := m.hasMethod(itf.T, "Error"); f != nil && verb != 'q' {
			if p, isP := itf.V.(*Value); isP && p == nil {
				return MkStr("<nil>")
			}
			return m.call(fr, f, []Value{itf.V}, nil).(Str)
		}
		if f := m.hasMethod(itf.T, "String"); f != nil && f.Signature.Params().Len() == 0 && verb != 'q' {
			if p, isP := itf.V.(*Value); isP && p == nil {
				return MkStr("<nil>")
			}
			r := m.call(fr, f, []Value{itf.V}, nil)
			if s, ok := r.(Str); ok {
				return s
			}
		}
	}
	switch x := itf.V.(type) {
	case Str:
		if verb == 'q' {
			if x.IsConc() {
				return MkStr(fmt.Sprintf("%q", x.S))
			}
			q := m.pkgFunc("strconv", "Quote")
			return m.call(fr, q, []Value{x}, nil).(Str)
		}
		if verb == 'x' || verb == 'X' {
			if x.IsConc() {
				return MkStr(fmt.Sprintf("%"+spec+string(verb), x.S))
			}
			return MkStr("<sym-hex>")
		}
		if x.IsConc() && spec != "" {
			return MkStr(fmt.Sprintf("%"+spec+string(verb), x.S))
		}
		return x
	case *Term:
		if x.W == 0 {
			if x.IsConst() {
				return MkStr(fmt.Sprintf("%"+spec+string(verb), x.IsTrue()))
			}
			if m.branch(x, "fmt-bool") {
				return MkStr("true")
			}
			return MkStr("false")
		}
		if x.IsConst() {
			if verb == 's' {
				verb = 'd'
			}
			if isSigned(itf.T) {
				return MkStr(fmt.Sprintf("%"+spec+string(verb), x.Signed()))
			}
			return MkStr(fmt.Sprintf("%"+spec+string(verb), x.Val))
		}
		if (verb == 'd' || verb == 'v') && spec == "" {
			if isSigned(itf.T) {
				f := m.pkgFunc("strconv", "FormatInt")
				return m.call(fr, f, []Value{SExt(x, 64), BV(64, 10)}, nil).(Str)
			}
			f := m.pkgFunc("strconv", "FormatUint")
			return m.call(fr, f, []Value{ZExt(x, 64), BV(64, 10)}, nil).(Str)
		}
		m.pathNotes = append(m.pathNotes, "sprintf: symbolic integer formatted as placeholder")
		return MkStr("<sym-int>")
	case float64:
		return MkStr(fmt.Sprintf("%"+spec+string(verb), x))
	case []Value:
		if bs, ok := itf.T.Underlying().(*types.Slice); ok {
			if e, ok := bs.Elem().Underlying().(*types.Basic); ok && e.Kind() == types.Uint8 && (verb == 's') {
				return StrFromTerms(sliceTerms(x))
			}
		}
		return MkStr(fmt.Sprintf("<slice len=%d>", len(x)))
	case *Value:
		return MkStr("<ptr>")
	}
	return MkStr(fmt.Sprintf("<%s>", itf.T))
}
