package sym

import (
	"fmt"
	"go/types"
	"os"
	"runtime/debug"
)

// RV is the engine's representation of a reflect.Value.
type RV struct {
	T    types.Type
	V    Value
	Addr *Value // non-nil when addressable (settable)
	RO   bool   // obtained through an unexported field
}

func init() {
	reg("reflect.DeepEqual", func(m *Machine, fr *frame, a []Value) Value {
		x, y := a[0].(Iface), a[1].(Iface)
		if x.T == nil || y.T == nil {
			return Bool(x.T == nil && y.T == nil)
		}
		if !types.Identical(x.T, y.T) {
			return T.False
		}
		return m.deepEq(x.T, x.V, y.V, 0)
	})
	reg("reflect.ValueOf", func(m *Machine, fr *frame, a []Value) Value {
		x := a[0].(Iface)
		if x.T == nil {
			return RV{}
		}
		return RV{T: x.T, V: x.V}
	})
	reg("(reflect.Value).Elem", func(m *Machine, fr *frame, a []Value) Value {
		rv := asRV(a[0])
		switch t := rv.T.Underlying().(type) {
		case *types.Pointer:
			p, _ := rv.cur().(*Value)
			if p == nil {
				return RV{}
			}
			return RV{T: t.Elem(), V: *p, Addr: p}
		case *types.Interface:
			it := rv.cur().(Iface)
			if it.T == nil {
				return RV{}
			}
			return RV{T: it.T, V: it.V}
		}
		panic(unsupported("reflect.Value.Elem on " + rv.T.String()))
	})
	reg("(reflect.Value).Len", func(m *Machine, fr *frame, a []Value) Value {
		rv := asRV(a[0])
		cur := rv.cur()
		switch x := cur.(type) {
		case []Value:
			return BV(64, uint64(len(x)))
		case Array:
			return BV(64, uint64(len(x)))
		case Str:
			return BV(64, uint64(x.Len()))
		case *Map:
			if x == nil {
				return BV(64, 0)
			}
			return BV(64, uint64(len(x.Keys)))
		}
		panic(unsupported("reflect.Value.Len on " + rv.T.String()))
	})
	reg("(reflect.Value).Slice", func(m *Machine, fr *frame, a []Value) Value {
		rv := asRV(a[0])
		s, ok := rv.cur().([]Value)
		if !ok {
			panic(unsupported("reflect.Value.Slice on " + rv.T.String()))
		}
		lo, hi := asTerm(a[1]), asTerm(a[2])
		bad := Or(Cmp(OpUlt, BV(64, uint64(cap(s))), hi), Cmp(OpUlt, hi, lo))
		m.rtPanic(fr, bad, "reflect: slice index out of bounds")
		l := m.concretize(lo, "reflect.Slice-lo")
		h := m.concretize(hi, "reflect.Slice-hi")
		if s == nil {
			return RV{T: rv.T, V: []Value(nil)}
		}
		return RV{T: rv.T, V: s[l:h]}
	})
	reg("(reflect.Value).Set", func(m *Machine, fr *frame, a []Value) Value {
		rv := asRV(a[0])
		if rv.Addr == nil {
			m.rtPanic(fr, T.True, "reflect: reflect.Value.Set using unaddressable value")
		}
		if rv.RO {
			m.rtPanic(fr, T.True, "reflect: reflect.Value.Set using value obtained using unexported field")
		}
		src := asRV(a[1])
		v := copyVal(src.cur())
		if _, dstIface := rv.T.Underlying().(*types.Interface); dstIface {
			if _, srcIface := src.T.Underlying().(*types.Interface); !srcIface {
				v = Iface{T: src.T, V: v}
			}
		}
		*rv.Addr = v
		return nil
	})
	reg("(reflect.Value).IsValid", func(m *Machine, fr *frame, a []Value) Value {
		rv, ok := a[0].(RV)
		return Bool(ok && rv.T != nil)
	})
	reg("(reflect.Value).IsNil", func(m *Machine, fr *frame, a []Value) Value {
		rv := asRV(a[0])
		switch x := rv.cur().(type) {
		case *Value:
			return Bool(x == nil)
		case []Value:
			return Bool(x == nil)
		case *Map:
			return Bool(x == nil)
		case Iface:
			return Bool(x.T == nil)
		case *Chan:
			return Bool(x == nil)
		case *Closure:
			return Bool(x == nil)
		}
		return Bool(isNilFunc(rv.cur()))
	})
	reg("(reflect.Value).Interface", func(m *Machine, fr *frame, a []Value) Value {
		rv := asRV(a[0])
		if _, isI := rv.T.Underlying().(*types.Interface); isI {
			return rv.cur()
		}
		return Iface{T: rv.T, V: copyVal(rv.cur())}
	})
}

func asRV(v Value) RV {
	if rv, ok := v.(RV); ok {
		if rv.T == nil {
			if os.Getenv("SYMGO_RVDEBUG") != "" {
				debug.PrintStack()
			}
			panic(&goPanic{Val: Iface{T: types.Typ[types.String], V: MkStr("reflect: call on zero Value")}, Msg: "reflect: call on zero Value", RT: true})
		}
		return rv
	}
	panic(unsupported(fmt.Sprintf("reflect.Value built outside the modelled API (%T)", v)))
}

func (rv RV) cur() Value {
	if rv.Addr != nil {
		return *rv.Addr
	}
	return rv.V
}

// deepEq is the contract of reflect.DeepEqual over engine values of static type t.
func (m *Machine) deepEq(t types.Type, x, y Value, depth int) *Term {
	if depth > 40 {
		panic(unsupported("reflect.DeepEqual: depth limit (cyclic value?)"))
	}
	switch u := t.Underlying().(type) {
	case *types.Basic:
		return m.valEq(t, x, y)
	case *types.Pointer:
		xp, _ := x.(*Value)
		yp, _ := y.(*Value)
		if xp == yp {
			return T.True
		}
		if xp == nil || yp == nil {
			return T.False
		}
		return m.deepEq(u.Elem(), *xp, *yp, depth+1)
	case *types.Struct:
		xs, ys := x.(Struct), y.(Struct)
		r := T.True
		for i := range xs {
			r = And(r, m.deepEq(u.Field(i).Type(), xs[i], ys[i], depth+1))
			if r.IsFalse() {
				return r
			}
		}
		return r
	case *types.Array:
		xs, ys := x.(Array), y.(Array)
		r := T.True
		for i := range xs {
			r = And(r, m.deepEq(u.Elem(), xs[i], ys[i], depth+1))
		}
		return r
	case *types.Slice:
		xs, _ := x.([]Value)
		ys, _ := y.([]Value)
		if (xs == nil) != (ys == nil) {
			return T.False
		}
		if len(xs) != len(ys) {
			return T.False
		}
		if len(xs) > 0 && &xs[0] == &ys[0] {
			return T.True
		}
		r := T.True
		for i := range xs {
			r = And(r, m.deepEq(u.Elem(), xs[i], ys[i], depth+1))
			if r.IsFalse() {
				return r
			}
		}
		return r
	case *types.Interface:
		xi, yi := x.(Iface), y.(Iface)
		if xi.T == nil || yi.T == nil {
			return Bool(xi.T == nil && yi.T == nil)
		}
		if !types.Identical(xi.T, yi.T) {
			return T.False
		}
		return m.deepEq(xi.T, xi.V, yi.V, depth+1)
	case *types.Map:
		xm, _ := x.(*Map)
		ym, _ := y.(*Map)
		if (xm == nil) != (ym == nil) {
			return T.False
		}
		if xm == ym {
			return T.True
		}
		if len(xm.Keys) != len(ym.Keys) {
			return T.False
		}
		// keys must be concrete-comparable for a structural answer
		r := T.True
		for i, k := range xm.Keys {
			found := -1
			for j, k2 := range ym.Keys {
				e := m.valEq(u.Key(), k, k2)
				if e.IsTrue() {
					found = j
					break
				}
				if !e.IsFalse() {
					panic(unsupported("reflect.DeepEqual on maps with symbolic keys"))
				}
			}
			if found < 0 {
				return T.False
			}
			r = And(r, m.deepEq(u.Elem(), xm.Vals[i], ym.Vals[found], depth+1))
		}
		return r
	case *types.Signature:
		return Bool(isNilFunc(x) && isNilFunc(y))
	case *types.Chan:
		return m.valEq(t, x, y)
	}
	panic(unsupported("reflect.DeepEqual on " + t.String()))
}
