package sym

import (
	"fmt"
	"go/constant"
	"go/token"
	"go/types"
	"math"
	"unicode/utf8"

	"golang.org/x/tools/go/ssa"
)

func constValue(c *ssa.Const) Value {
	if c.Value == nil {
		return zero(c.Type())
	}
	if t, ok := c.Type().Underlying().(*types.Basic); ok {
		switch {
		case t.Info()&types.IsBoolean != 0:
			return Bool(constant.BoolVal(c.Value))
		case t.Info()&types.IsInteger != 0:
			w := widthOf(t)
			if t.Info()&types.IsUnsigned != 0 {
				return BV(w, c.Uint64())
			}
			return BV(w, uint64(c.Int64()))
		case t.Info()&types.IsFloat != 0:
			f := c.Float64()
			if t.Kind() == types.Float32 {
				f = float64(float32(f))
			}
			return f
		case t.Info()&types.IsComplex != 0:
			return c.Complex128()
		case t.Info()&types.IsString != 0:
			if c.Value.Kind() == constant.String {
				return MkStr(constant.StringVal(c.Value))
			}
			return MkStr(string(rune(c.Int64())))
		}
	}
	panic(fmt.Sprintf("constValue: %s", c))
}

func (m *Machine) unop(fr *frame, instr *ssa.UnOp, x Value) Value {
	switch instr.Op {
	case token.ARROW:
		return m.chanRecv(fr, x, instr.CommaOk)
	case token.SUB:
		switch x := x.(type) {
		case *Term:
			return Un(OpNeg, x)
		case float64:
			if instr.Type().Underlying().(*types.Basic).Kind() == types.Float32 {
				return float64(float32(-x))
			}
			return -x
		case complex128:
			return -x
		}
	case token.MUL:
		return m.load(fr, x)
	case token.NOT:
		return Not(asTerm(x))
	case token.XOR:
		return Un(OpNot, asTerm(x))
	}
	panic(unsupported(fmt.Sprintf("unop %s on %T", instr.Op, x)))
}

func (m *Machine) binop(fr *frame, op token.Token, t types.Type, x, y Value, yt types.Type) Value {
	switch op {
	case token.EQL:
		return m.valEq(t, x, y)
	case token.NEQ:
		return Not(m.valEq(t, x, y))
	}
	switch x := x.(type) {
	case *Term:
		y := asTerm(y)
		if x.W == 0 {
			panic(unsupported("binop on bool: " + op.String()))
		}
		signed := isSigned(t)
		switch op {
		case token.ADD:
			return Bin(OpAdd, x, y)
		case token.SUB:
			return Bin(OpSub, x, y)
		case token.MUL:
			return Bin(OpMul, x, y)
		case token.QUO:
			m.rtPanic(fr, Eq(y, BV(y.W, 0)), "integer divide by zero")
			if signed {
				return Bin(OpSDiv, x, y)
			}
			return Bin(OpUDiv, x, y)
		case token.REM:
			m.rtPanic(fr, Eq(y, BV(y.W, 0)), "integer divide by zero")
			if signed {
				return Bin(OpSRem, x, y)
			}
			return Bin(OpURem, x, y)
		case token.AND:
			return Bin(OpAnd, x, y)
		case token.OR:
			return Bin(OpOr, x, y)
		case token.XOR:
			return Bin(OpXor, x, y)
		case token.AND_NOT:
			return Bin(OpAnd, x, Un(OpNot, y))
		case token.SHL, token.SHR:
			return m.shift(fr, op, x, y, signed, isSigned(yt))
		case token.LSS:
			if signed {
				return Cmp(OpSlt, x, y)
			}
			return Cmp(OpUlt, x, y)
		case token.LEQ:
			if signed {
				return Cmp(OpSle, x, y)
			}
			return Cmp(OpUle, x, y)
		case token.GTR:
			if signed {
				return Cmp(OpSlt, y, x)
			}
			return Cmp(OpUlt, y, x)
		case token.GEQ:
			if signed {
				return Cmp(OpSle, y, x)
			}
			return Cmp(OpUle, y, x)
		}
	case float64:
		y := y.(float64)
		f32 := false
		if b, ok := t.Underlying().(*types.Basic); ok && b.Kind() == types.Float32 {
			f32 = true
		}
		rnd := func(f float64) Value {
			if f32 {
				return float64(float32(f))
			}
			return f
		}
		switch op {
		case token.ADD:
			return rnd(x + y)
		case token.SUB:
			return rnd(x - y)
		case token.MUL:
			return rnd(x * y)
		case token.QUO:
			return rnd(x / y)
		case token.LSS:
			return Bool(x < y)
		case token.LEQ:
			return Bool(x <= y)
		case token.GTR:
			return Bool(x > y)
		case token.GEQ:
			return Bool(x >= y)
		}
	case Str:
		y := y.(Str)
		switch op {
		case token.ADD:
			return concatStr(x, y)
		case token.LSS:
			return m.strLess(x, y, false)
		case token.LEQ:
			return m.strLess(x, y, true)
		case token.GTR:
			return m.strLess(y, x, false)
		case token.GEQ:
			return m.strLess(y, x, true)
		}
	case complex128:
		y := y.(complex128)
		switch op {
		case token.ADD:
			return x + y
		case token.SUB:
			return x - y
		case token.MUL:
			return x * y
		case token.QUO:
			return x / y
		}
	}
	panic(unsupported(fmt.Sprintf("binop %s on %T", op, x)))
}

func (m *Machine) shift(fr *frame, op token.Token, x, y *Term, xsigned, ysigned bool) Value {
	w := x.W
	if ysigned {
		m.rtPanic(fr, Cmp(OpSlt, y, BV(y.W, 0)), "negative shift amount")
	}
	var sop Op
	switch {
	case op == token.SHL:
		sop = OpShl
	case xsigned:
		sop = OpAShr
	default:
		sop = OpLShr
	}
	y64 := ZExt(y, 64)
	if y.W > 64 {
		panic("shift width")
	}
	if y64.IsConst() {
		if y64.Val >= uint64(w) {
			if sop == OpAShr {
				return Bin(OpAShr, x, BV(w, uint64(w-1)))
			}
			return BV(w, 0)
		}
		return Bin(sop, x, BV(w, y64.Val))
	}
	big := Not(Cmp(OpUlt, y64, BV(64, uint64(w))))
	var yw *Term
	if w >= 64 {
		yw = y64
	} else {
		yw = Extract(y64, w-1, 0)
	}
	var over *Term
	if sop == OpAShr {
		over = Bin(OpAShr, x, BV(w, uint64(w-1)))
	} else {
		over = BV(w, 0)
	}
	return Ite(big, over, Bin(sop, x, yw))
}

// strLess builds a lexicographic comparison (orEq: <=).
func (m *Machine) strLess(a, b Str, orEq bool) *Term {
	if a.IsConc() && b.IsConc() {
		if orEq {
			return Bool(a.S <= b.S)
		}
		return Bool(a.S < b.S)
	}
	ab, bb := a.Bytes(), b.Bytes()
	n := len(ab)
	if len(bb) < n {
		n = len(bb)
	}
	// result when all common bytes equal
	var res *Term
	if len(ab) < len(bb) {
		res = T.True
	} else if len(ab) == len(bb) {
		res = Bool(orEq)
	} else {
		res = T.False
	}
	for i := n - 1; i >= 0; i-- {
		res = Ite(Eq(ab[i], bb[i]), res, Cmp(OpUlt, ab[i], bb[i]))
	}
	return res
}

func strEq(a, b Str) *Term {
	if a.Len() != b.Len() {
		return T.False
	}
	if a.IsConc() && b.IsConc() {
		return Bool(a.S == b.S)
	}
	ab, bb := a.Bytes(), b.Bytes()
	r := T.True
	for i := range ab {
		r = And(r, Eq(ab[i], bb[i]))
		if r.IsFalse() {
			return r
		}
	}
	return r
}

// valEq is Go's == on values of static type t.
func (m *Machine) valEq(t types.Type, x, y Value) *Term {
	// reflect.Value: the engine's RV against another one or against the zero value of the struct type
	if rx, ok := x.(RV); ok {
		switch ry := y.(type) {
		case RV:
			if rx.T == nil || ry.T == nil {
				return Bool(rx.T == nil && ry.T == nil)
			}
			return Bool(rx.Addr != nil && rx.Addr == ry.Addr)
		case Struct:
			return Bool(rx.T == nil)
		}
	}
	if ry, ok := y.(RV); ok {
		if _, isStruct := x.(Struct); isStruct {
			return Bool(ry.T == nil)
		}
	}
	switch x := x.(type) {
	case *Term:
		return Eq(x, asTerm(y))
	case float64:
		return Bool(x == y.(float64))
	case complex128:
		return Bool(x == y.(complex128))
	case Str:
		return strEq(x, y.(Str))
	case *Value:
		return Bool(x == y.(*Value))
	case *SymElem:
		panic(unsupported("comparison of symbolic element pointers"))
	case UnsafePtr:
		yy := y.(UnsafePtr)
		xp, _ := x.P.(*Value)
		yp, _ := yy.P.(*Value)
		return Bool(xp == yp)
	case Struct:
		y := y.(Struct)
		st := t.Underlying().(*types.Struct)
		r := T.True
		for i := range x {
			if st.Field(i).Name() == "_" {
				continue
			}
			r = And(r, m.valEq(st.Field(i).Type(), x[i], y[i]))
		}
		return r
	case Array:
		y := y.(Array)
		et := t.Underlying().(*types.Array).Elem()
		r := T.True
		for i := range x {
			r = And(r, m.valEq(et, x[i], y[i]))
		}
		return r
	case Iface:
		y := y.(Iface)
		if x.T == nil || y.T == nil {
			return Bool(x.T == nil && y.T == nil)
		}
		if !types.Identical(x.T, y.T) {
			return T.False
		}
		if !types.Comparable(x.T) {
			panic(&goPanic{Val: m.runtimeError("comparing uncomparable type " + x.T.String()), Msg: "runtime error: comparing uncomparable type " + x.T.String(), RT: true})
		}
		return m.valEq(x.T, x.V, y.V)
	case []Value:
		// only comparison with nil is legal
		if y == nil || y.([]Value) == nil {
			return Bool(x == nil)
		}
		if x == nil {
			return Bool(y.([]Value) == nil)
		}
	case *Map:
		yy, _ := y.(*Map)
		return Bool(x == yy)
	case *Chan:
		yy, _ := y.(*Chan)
		return Bool(x == yy)
	case *Closure, *ssa.Function, *ssa.Builtin, *NativeFn:
		if isNilFunc(y) {
			return Bool(isNilFunc(x))
		}
		if isNilFunc(x) {
			return Bool(isNilFunc(y))
		}
	case *NativeObj:
		yy, _ := y.(*NativeObj)
		return Bool(x == yy)
	case nil:
		return Bool(y == nil)
	}
	panic(unsupported(fmt.Sprintf("comparison of %T with %T", x, y)))
}

func (m *Machine) conv(fr *frame, tDst, tSrc types.Type, x Value) Value {
	utSrc, utDst := tSrc.Underlying(), tDst.Underlying()
	switch ut := utDst.(type) {
	case *types.Signature, *types.Map, *types.Chan, *types.Struct, *types.Interface, *types.Array:
		return x
	case *types.Pointer:
		switch x := x.(type) {
		case UnsafePtr:
			if x.P == nil {
				return (*Value)(nil)
			}
			if p, ok := x.P.(*Value); ok {
				// reinterpretation is only sound between identical layouts
				if x.T != nil && !types.Identical(x.T.Underlying(), utDst) && !identicalLayout(deref(x.T), ut.Elem()) {
					panic(unsupported(fmt.Sprintf("unsafe pointer cast %s → %s", x.T, tDst)))
				}
				return p
			}
			panic(unsupported("unsafe pointer conversion"))
		}
		return x
	case *types.Slice:
		switch x := x.(type) {
		case Str:
			if e, ok := ut.Elem().Underlying().(*types.Basic); ok {
				switch e.Kind() {
				case types.Uint8:
					b := x.Bytes()
					r := make([]Value, len(b))
					for i := range b {
						r[i] = b[i]
					}
					return r
				case types.Int32:
					if !x.IsConc() {
						return m.symStringToRunes(fr, x)
					}
					var r []Value
					for _, c := range x.S {
						r = append(r, BV(32, uint64(c)))
					}
					if r == nil {
						r = []Value{}
					}
					return r
				}
			}
		case []Value:
			return x
		}
	case *types.Basic:
		if ut.Kind() == types.UnsafePointer {
			switch x := x.(type) {
			case UnsafePtr:
				return x
			case *Value:
				return UnsafePtr{P: x, T: tSrc}
			case *Term:
				if x.IsConst() && x.Val == 0 {
					return UnsafePtr{}
				}
				panic(unsupported("uintptr → unsafe.Pointer"))
			}
			panic(unsupported(fmt.Sprintf("conversion to unsafe.Pointer from %T", x)))
		}
		if ut.Info()&types.IsString != 0 {
			switch x := x.(type) {
			case Str:
				return x
			case []Value:
				if bs, ok := utSrc.(*types.Slice); ok {
					if e, ok := bs.Elem().Underlying().(*types.Basic); ok && e.Kind() == types.Int32 {
						var rs []rune
						for _, r := range x {
							c, ok := concInt(r)
							if !ok {
								panic(unsupported("[]rune → string with symbolic runes"))
							}
							rs = append(rs, rune(c))
						}
						return MkStr(string(rs))
					}
				}
				b := make([]*Term, len(x))
				for i := range x {
					b[i] = x[i].(*Term)
				}
				return StrFromTerms(b)
			case *Term:
				// integer → string (rune)
				if x.IsConst() {
					return MkStr(string(rune(x.Signed())))
				}
				return m.symRuneToString(fr, x)
			}
		}
		if ut.Info()&types.IsInteger != 0 {
			w := widthOf(ut)
			switch x := x.(type) {
			case *Term:
				if x.W == 0 {
					panic(unsupported("bool → int conversion"))
				}
				if isSigned(tSrc) {
					return SExt(x, w)
				}
				return ZExt(x, w)
			case float64:
				if ut.Info()&types.IsUnsigned != 0 {
					return BV(w, uint64(x))
				}
				return BV(w, uint64(int64(x)))
			case UnsafePtr:
				if x.P == nil {
					return BV(64, 0)
				}
				panic(unsupported("unsafe.Pointer → uintptr"))
			}
		}
		if ut.Info()&types.IsFloat != 0 {
			var f float64
			switch x := x.(type) {
			case float64:
				f = x
			case *Term:
				if !x.IsConst() {
					panic(unsupported("symbolic integer → float conversion at " + fr.where()))
				}
				if isSigned(tSrc) {
					f = float64(x.Signed())
				} else {
					f = float64(x.Val)
				}
			default:
				panic(unsupported(fmt.Sprintf("conversion to float from %T", x)))
			}
			if ut.Kind() == types.Float32 {
				f = float64(float32(f))
			}
			return f
		}
		if ut.Info()&types.IsComplex != 0 {
			return x
		}
		if ut.Info()&types.IsBoolean != 0 {
			return x
		}
	}
	panic(unsupported(fmt.Sprintf("conversion %s → %s (%T)", tSrc, tDst, x)))
}

func identicalLayout(a, b types.Type) bool {
	return types.Identical(a.Underlying(), b.Underlying())
}

// symRuneToString encodes a symbolic rune as UTF-8 by forking on the length class.
func (m *Machine) symRuneToString(fr *frame, r *Term) Value {
	r = SExt(r, 32)
	v := uint32(0)
	_ = v
	// classes: <0x80, <0x800, surrogate/invalid → U+FFFD, <0x10000, <=0x10FFFF
	u := r
	c := func(k uint64) *Term { return BV(32, k) }
	alts := []*Term{
		Cmp(OpUlt, u, c(0x80)),
		And(Not(Cmp(OpUlt, u, c(0x80))), Cmp(OpUlt, u, c(0x800))),
		And(Not(Cmp(OpUlt, u, c(0x800))), And(Cmp(OpUlt, u, c(0x10000)), Or(Cmp(OpUlt, u, c(0xD800)), Cmp(OpUlt, c(0xDFFF), u)))),
		And(Not(Cmp(OpUlt, u, c(0x10000))), Cmp(OpUle, u, c(0x10FFFF))),
	}
	rest := T.True
	for _, a := range alts {
		rest = And(rest, Not(a))
	}
	alts = append(alts, rest)
	b := func(t *Term) *Term { return Extract(t, 7, 0) }
	switch m.choose(alts, "rune→string@"+fr.where()) {
	case 0:
		return StrFromTerms([]*Term{b(u)})
	case 1:
		return StrFromTerms([]*Term{
			Bin(OpOr, BV(8, 0xC0), b(Bin(OpLShr, u, c(6)))),
			Bin(OpOr, BV(8, 0x80), Bin(OpAnd, b(u), BV(8, 0x3F)))})
	case 2:
		return StrFromTerms([]*Term{
			Bin(OpOr, BV(8, 0xE0), b(Bin(OpLShr, u, c(12)))),
			Bin(OpOr, BV(8, 0x80), Bin(OpAnd, b(Bin(OpLShr, u, c(6))), BV(8, 0x3F))),
			Bin(OpOr, BV(8, 0x80), Bin(OpAnd, b(u), BV(8, 0x3F)))})
	case 3:
		return StrFromTerms([]*Term{
			Bin(OpOr, BV(8, 0xF0), b(Bin(OpLShr, u, c(18)))),
			Bin(OpOr, BV(8, 0x80), Bin(OpAnd, b(Bin(OpLShr, u, c(12))), BV(8, 0x3F))),
			Bin(OpOr, BV(8, 0x80), Bin(OpAnd, b(Bin(OpLShr, u, c(6))), BV(8, 0x3F))),
			Bin(OpOr, BV(8, 0x80), Bin(OpAnd, b(u), BV(8, 0x3F)))})
	}
	return MkStr(string(utf8.RuneError))
}

func (m *Machine) symStringToRunes(fr *frame, s Str) Value {
	it := &RangeIter{kind: 's', str: s}
	var out []Value
	for {
		t := it.next(m, fr)
		if t[0].(*Term).IsFalse() {
			break
		}
		out = append(out, t[2])
	}
	if out == nil {
		out = []Value{}
	}
	return out
}

// ---------------------------------------------------------------------------
// maps

func mapKeyFast(k Value) (string, bool) {
	switch k := k.(type) {
	case Str:
		if k.IsConc() {
			return "s" + k.S, true
		}
	case *Term:
		if k.IsConst() {
			return fmt.Sprintf("i%d/%d", k.Val, k.W), true
		}
	}
	return "", false
}

// mapFind returns the index of key in mp or -1; may fork on symbolic equality.
func (m *Machine) mapFind(fr *frame, mp *Map, key Value) int {
	if mp == nil {
		return -1
	}
	if itf, ok := key.(Iface); ok && itf.T != nil && !types.Comparable(itf.T) {
		m.rtPanic(fr, T.True, "hash of unhashable type "+itf.T.String())
	}
	if mp.fast != nil {
		if fk, ok := mapKeyFast(key); ok {
			if i, ok := mp.fast[fk]; ok {
				return i
			}
			return -1
		}
	}
	var alts []*Term
	var idxs []int
	rest := T.True
	for i, k := range mp.Keys {
		e := m.valEq(mp.KT, k, key)
		if e.IsFalse() {
			continue
		}
		if e.IsTrue() {
			if len(alts) == 0 {
				return i
			}
			alts = append(alts, And(rest, e))
			idxs = append(idxs, i)
			rest = T.False
			break
		}
		alts = append(alts, And(rest, e))
		idxs = append(idxs, i)
		rest = And(rest, Not(e))
	}
	if len(alts) == 0 {
		return -1
	}
	alts = append(alts, rest)
	idxs = append(idxs, -1)
	return idxs[m.chooseEx(alts, "mapkey@"+fr.where(), true)]
}

func (m *Machine) mapInsert(fr *frame, mp *Map, key, val Value) {
	if m.inMerge {
		panic(mergeAbort{"map update in merge region"})
	}
	i := m.mapFind(fr, mp, key)
	if i >= 0 {
		mp.Vals[i] = copyVal(val)
		return
	}
	fk, isFast := mapKeyFast(key)
	if len(mp.Keys) == 0 && isFast {
		mp.fast = map[string]int{}
	}
	if mp.fast != nil {
		if isFast {
			mp.fast[fk] = len(mp.Keys)
		} else {
			mp.fast = nil
		}
	}
	mp.Keys = append(mp.Keys, copyVal(key))
	mp.Vals = append(mp.Vals, copyVal(val))
}

func (m *Machine) mapDelete(fr *frame, mp *Map, key Value) {
	if mp == nil {
		return
	}
	if m.inMerge {
		panic(mergeAbort{"map delete in merge region"})
	}
	i := m.mapFind(fr, mp, key)
	if i < 0 {
		return
	}
	mp.Keys = append(mp.Keys[:i:i], mp.Keys[i+1:]...)
	mp.Vals = append(mp.Vals[:i:i], mp.Vals[i+1:]...)
	if mp.fast != nil {
		mp.fast = map[string]int{}
		for j, k := range mp.Keys {
			fk, _ := mapKeyFast(k)
			mp.fast[fk] = j
		}
	}
}

func (m *Machine) lookup(fr *frame, instr *ssa.Lookup, x, idx Value) Value {
	switch x := x.(type) {
	case Str:
		return m.strIndex(fr, x, m.toIndex(asTerm(idx), instr.Index.Type()))
	case *Map:
		vt := instr.X.Type().Underlying().(*types.Map).Elem()
		i := m.mapFind(fr, x, idx)
		var v Value
		if i >= 0 {
			v = copyVal(x.Vals[i])
		} else {
			v = zero(vt)
		}
		if instr.CommaOk {
			return Tuple{v, Bool(i >= 0)}
		}
		return v
	}
	panic(unsupported(fmt.Sprintf("lookup on %T", x)))
}

// ---------------------------------------------------------------------------
// range

// RangeIter iterates strings and maps.
type RangeIter struct {
	kind byte // 's' or 'm'
	str  Str
	pos  int
	keys []Value
	mp   *Map
}

func (m *Machine) rangeIter(fr *frame, x Value, t types.Type) Value {
	switch x := x.(type) {
	case Str:
		return &RangeIter{kind: 's', str: x}
	case *Map:
		it := &RangeIter{kind: 'm', mp: x}
		if x != nil {
			it.keys = append([]Value{}, x.Keys...)
			if m.mapOrder != nil {
				it.keys = m.mapOrder(m, fr, it.keys)
			}
		}
		return it
	}
	panic(unsupported(fmt.Sprintf("range over %T", x)))
}

func (it *RangeIter) next(m *Machine, fr *frame) Tuple {
	switch it.kind {
	case 's':
		if it.pos >= it.str.Len() {
			return Tuple{T.False, BV(64, 0), BV(32, 0)}
		}
		if it.str.IsConc() {
			r, n := utf8.DecodeRuneInString(it.str.S[it.pos:])
			p := it.pos
			it.pos += n
			return Tuple{T.True, BV(64, uint64(p)), BV(32, uint64(r))}
		}
		// symbolic: interpret unicode/utf8.DecodeRuneInString
		pkg := m.Prog.ImportedPackage("unicode/utf8")
		if pkg == nil {
			panic(unsupported("range over symbolic string needs unicode/utf8 in the program"))
		}
		f := pkg.Func("DecodeRuneInString")
		res := m.call(fr, f, []Value{it.str.slice(it.pos, it.str.Len())}, nil).(Tuple)
		n := m.concretize(res[1].(*Term), "range-string")
		p := it.pos
		it.pos += int(n)
		return Tuple{T.True, BV(64, uint64(p)), res[0]}
	case 'm':
		for it.pos < len(it.keys) {
			k := it.keys[it.pos]
			it.pos++
			// entry may have been deleted during iteration
			idx := -1
			for i, kk := range it.mp.Keys {
				if sameKeyObject(kk, k) {
					idx = i
					break
				}
			}
			if idx < 0 {
				continue
			}
			return Tuple{T.True, copyVal(k), copyVal(it.mp.Vals[idx])}
		}
		return Tuple{T.False, nil, nil}
	}
	panic("bad iterator")
}

func sameKeyObject(a, b Value) bool {
	switch a := a.(type) {
	case *Term:
		bb, ok := b.(*Term)
		return ok && a == bb
	case Str:
		bb, ok := b.(Str)
		if !ok || a.Len() != bb.Len() {
			return false
		}
		if a.IsConc() != bb.IsConc() {
			return false
		}
		if a.IsConc() {
			return a.S == bb.S
		}
		for i := range a.B {
			if a.B[i] != bb.B[i] {
				return false
			}
		}
		return true
	case *Value:
		bb, ok := b.(*Value)
		return ok && a == bb
	case Iface:
		bb, ok := b.(Iface)
		return ok && a.T == bb.T && sameKeyObject(a.V, bb.V)
	case Struct:
		bb, ok := b.(Struct)
		if !ok || len(a) != len(bb) {
			return false
		}
		for i := range a {
			if !sameKeyObject(a[i], bb[i]) {
				return false
			}
		}
		return true
	case Array:
		bb, ok := b.(Array)
		if !ok || len(a) != len(bb) {
			return false
		}
		for i := range a {
			if !sameKeyObject(a[i], bb[i]) {
				return false
			}
		}
		return true
	case float64:
		bb, ok := b.(float64)
		return ok && a == bb
	case *Chan:
		bb, ok := b.(*Chan)
		return ok && a == bb
	}
	return false
}

// ---------------------------------------------------------------------------
// channels, goroutines (environment model)

func (m *Machine) chanSend(fr *frame, ch Value, v Value) {
	c, _ := ch.(*Chan)
	if c == nil {
		panic(pathEnd{"blocked", "send on nil channel"})
	}
	if c.Closed {
		m.rtPanic(fr, T.True, "send on closed channel")
	}
	if m.inMerge {
		panic(mergeAbort{"send in merge region"})
	}
	c.Buf = append(c.Buf, copyVal(v))
	m.trace = append(m.trace, Event{Name: "send:" + c.Name, Args: []Value{v}})
}

func (m *Machine) chanRecv(fr *frame, ch Value, commaOk bool) Value {
	c, _ := ch.(*Chan)
	if c == nil {
		panic(pathEnd{"blocked", "receive on nil channel"})
	}
	if m.inMerge {
		panic(mergeAbort{"recv in merge region"})
	}
	if len(c.Buf) > 0 {
		v := c.Buf[0]
		c.Buf = c.Buf[1:]
		if commaOk {
			return Tuple{v, T.True}
		}
		return v
	}
	if c.Closed {
		z := zero(c.ElemT)
		if commaOk {
			return Tuple{z, T.False}
		}
		return z
	}
	// give pending goroutines a chance to run
	if m.runPending(fr) {
		return m.chanRecv(fr, ch, commaOk)
	}
	if m.waitFor(func() bool { return len(c.Buf) > 0 || c.Closed }, "receive on "+c.Name+" at "+fr.where()) {
		return m.chanRecv(fr, ch, commaOk)
	}
	panic(pathEnd{"blocked", "receive on empty channel " + c.Name + " at " + fr.where()})
}

type pendingGo struct {
	fn   Value
	args []Value
}

func (m *Machine) spawn(fr *frame, fn Value, args []Value) {
	m.trace = append(m.trace, Event{Name: "go", Args: []Value{fn}})
	switch m.goMode {
	case "threads":
		m.spawnThread(fn, args)
	case "skip":
	case "defer":
		m.pending = append(m.pending, pendingGo{fn, args})
	default: // "sync": run to completion now
		m.runGo(fr, pendingGo{fn, args})
	}
}

func (m *Machine) runGo(fr *frame, g pendingGo) {
	defer func() {
		if r := recover(); r != nil {
			if pe, ok := r.(pathEnd); ok && pe.Kind == "blocked" {
				// the goroutine blocked forever: fine, it just stops here
				m.pathNotes = append(m.pathNotes, "goroutine blocked: "+pe.Msg)
				return
			}
			panic(r)
		}
	}()
	m.callValue(nil, g.fn, g.args)
}

func (m *Machine) runPending(fr *frame) bool {
	if len(m.pending) == 0 {
		return false
	}
	g := m.pending[0]
	m.pending = m.pending[1:]
	m.runGo(fr, g)
	return true
}

func (m *Machine) selectOp(fr *frame, instr *ssa.Select) Value {
	if m.inMerge {
		panic(mergeAbort{"select in merge region"})
	}
	for {
		var ready []int
		for i, st := range instr.States {
			c, _ := fr.get(st.Chan).(*Chan)
			if c == nil {
				continue
			}
			if st.Dir == types.RecvOnly {
				if len(c.Buf) > 0 || c.Closed {
					ready = append(ready, i)
				}
			} else {
				ready = append(ready, i) // sends never block in the environment model
			}
		}
		if len(ready) == 0 {
			if !instr.Blocking {
				r := Tuple{BV(64, ^uint64(0)), T.False}
				for _, st := range instr.States {
					if st.Dir == types.RecvOnly {
						r = append(r, zero(st.Chan.Type().Underlying().(*types.Chan).Elem()))
					}
				}
				return r
			}
			if m.runPending(fr) {
				continue
			}
			if m.threadsOn() {
				var chans []*Chan
				for _, st := range instr.States {
					if c, _ := fr.get(st.Chan).(*Chan); c != nil && st.Dir == types.RecvOnly {
						chans = append(chans, c)
					}
				}
				m.waitFor(func() bool {
					for _, c := range chans {
						if len(c.Buf) > 0 || c.Closed {
							return true
						}
					}
					return false
				}, "select at "+fr.where())
				continue
			}
			panic(pathEnd{"blocked", "select with no ready case at " + fr.where()})
		}
		alts := make([]*Term, len(ready))
		if len(ready) == 1 {
			alts[0] = T.True
		} else {
			// a free choice of the scheduler: one fresh selector variable
			sel := m.freshVar("select", 8)
			for i := range ready {
				alts[i] = Eq(sel, BV(8, uint64(i)))
			}
		}
		k := ready[m.choose(alts, "select@"+fr.where())]
		st := instr.States[k]
		c := fr.get(st.Chan).(*Chan)
		r := Tuple{BV(64, uint64(k)), T.False}
		if st.Dir == types.RecvOnly {
			var v Value
			if len(c.Buf) > 0 {
				v = c.Buf[0]
				c.Buf = c.Buf[1:]
				r[1] = T.True
			} else {
				v = zero(c.ElemT)
			}
			for i, s2 := range instr.States {
				if s2.Dir == types.RecvOnly {
					if i == k {
						r = append(r, v)
					} else {
						r = append(r, zero(s2.Chan.Type().Underlying().(*types.Chan).Elem()))
					}
				}
			}
		} else {
			m.chanSend(fr, c, fr.get(st.Send))
			for _, s2 := range instr.States {
				if s2.Dir == types.RecvOnly {
					r = append(r, zero(s2.Chan.Type().Underlying().(*types.Chan).Elem()))
				}
			}
		}
		return r
	}
}

func (m *Machine) noteAlloc(fr *frame, n int) {
	if n > m.maxAlloc {
		m.maxAlloc = n
	}
}

var _ = math.MaxInt64
