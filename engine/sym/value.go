package sym

import (
	"fmt"
	"go/types"
	"strings"

	"golang.org/x/tools/go/ssa"
)

// Value is a symbolic run-time value:
//
//	*Term            bool and integer scalars (bit-vectors of the Go width)
//	float64          floats (concrete only)
//	complex128       complex (concrete only)
//	Str              strings (concrete length, possibly symbolic bytes)
//	*Value           pointers (nil pointer = (*Value)(nil)); *SymElem for symbolic element refs
//	[]Value          slices
//	Struct, Array    aggregates (copied on load/store)
//	Tuple            multi-value results
//	Iface            interfaces
//	*Map             maps
//	*Closure, *ssa.Function, *ssa.Builtin   functions
//	*Chan            channels
//	*RangeIter       iterators of Range/Next
//	UnsafePtr        unsafe.Pointer
type Value interface{}

// Struct is a struct value.
type Struct []Value

// Array is an array value.
type Array []Value

// Tuple is a tuple value.
type Tuple []Value

// Iface is an interface value; T==nil is the nil interface.
type Iface struct {
	T types.Type
	V Value
}

// Str is a string. If B != nil the bytes are terms (len(B) is the length).
type Str struct {
	S string
	B []*Term
}

// Closure is a function value with bindings.
type Closure struct {
	Fn  *ssa.Function
	Env []Value
}

// UnsafePtr wraps a typed pointer converted to unsafe.Pointer.
type UnsafePtr struct {
	P Value // *Value, []Value (for slice data), Str (string data) or nil
	T types.Type
}

// SymElem is a reference to elems[idx] with a symbolic index already known in range.
type SymElem struct {
	Elems []Value
	Idx   *Term // 64-bit
}

// Map is a map with concrete shape; keys pairwise distinct under the path condition.
type Map struct {
	Keys []Value
	Vals []Value
	KT   types.Type
	fast map[string]int // concrete string/int keys → index
}

// Chan is an environment channel.
type Chan struct {
	Buf    []Value
	Closed bool
	Cap    int
	Name   string
	ElemT  types.Type
}

// MkStr returns a concrete string value.
func MkStr(s string) Str { return Str{S: s} }

// Len of the string.
func (s Str) Len() int {
	if s.B != nil {
		return len(s.B)
	}
	return len(s.S)
}

// IsConc reports whether all bytes are concrete.
func (s Str) IsConc() bool { return s.B == nil }

// Bytes returns the bytes as terms.
func (s Str) Bytes() []*Term {
	if s.B != nil {
		return s.B
	}
	r := make([]*Term, len(s.S))
	for i := 0; i < len(s.S); i++ {
		r[i] = BV(8, uint64(s.S[i]))
	}
	return r
}

// StrFromTerms normalises a byte-term list into a Str.
func StrFromTerms(b []*Term) Str {
	conc := true
	for _, t := range b {
		if !t.IsConst() {
			conc = false
			break
		}
	}
	if conc {
		var sb strings.Builder
		for _, t := range b {
			sb.WriteByte(byte(t.Val))
		}
		return Str{S: sb.String()}
	}
	if len(b) == 0 {
		return Str{}
	}
	return Str{B: b}
}

func (s Str) slice(lo, hi int) Str {
	if s.B != nil {
		return StrFromTerms(s.B[lo:hi])
	}
	return Str{S: s.S[lo:hi]}
}

func concatStr(a, b Str) Str {
	if a.IsConc() && b.IsConc() {
		return Str{S: a.S + b.S}
	}
	r := append(append([]*Term{}, a.Bytes()...), b.Bytes()...)
	return StrFromTerms(r)
}

func widthOf(t types.Type) int {
	switch b := t.Underlying().(type) {
	case *types.Basic:
		switch b.Kind() {
		case types.Bool, types.UntypedBool:
			return 0
		case types.Int8, types.Uint8:
			return 8
		case types.Int16, types.Uint16:
			return 16
		case types.Int32, types.Uint32, types.UntypedRune:
			return 32
		case types.Int, types.Uint, types.Int64, types.Uint64, types.Uintptr, types.UntypedInt:
			return 64
		}
	}
	return -1
}

func isSigned(t types.Type) bool {
	if b, ok := t.Underlying().(*types.Basic); ok {
		return b.Info()&types.IsInteger != 0 && b.Info()&types.IsUnsigned == 0
	}
	return false
}

func isInteger(t types.Type) bool {
	b, ok := t.Underlying().(*types.Basic)
	return ok && b.Info()&types.IsInteger != 0
}

func isFloat(t types.Type) bool {
	b, ok := t.Underlying().(*types.Basic)
	return ok && b.Info()&types.IsFloat != 0
}

func isString(t types.Type) bool {
	b, ok := t.Underlying().(*types.Basic)
	return ok && b.Info()&types.IsString != 0
}

func isBoolean(t types.Type) bool {
	b, ok := t.Underlying().(*types.Basic)
	return ok && b.Info()&types.IsBoolean != 0
}

// zero returns the zero value of type t.
func zero(t types.Type) Value {
	switch t := t.(type) {
	case *types.Basic:
		if t.Kind() == types.UntypedNil {
			panic("untyped nil has no zero value")
		}
		if t.Info()&types.IsUntyped != 0 {
			t = types.Default(t).(*types.Basic)
		}
		switch t.Kind() {
		case types.Bool:
			return T.False
		case types.Float32, types.Float64:
			return float64(0)
		case types.Complex64, types.Complex128:
			return complex128(0)
		case types.String:
			return Str{}
		case types.UnsafePointer:
			return UnsafePtr{}
		case types.Invalid:
			panic("zero of invalid type")
		default:
			return BV(widthOf(t), 0)
		}
	case *types.Pointer:
		return (*Value)(nil)
	case *types.Array:
		a := make(Array, t.Len())
		for i := range a {
			a[i] = zero(t.Elem())
		}
		return a
	case *types.Named:
		return zero(t.Underlying())
	case *types.Alias:
		return zero(types.Unalias(t))
	case *types.Interface:
		return Iface{}
	case *types.Slice:
		return []Value(nil)
	case *types.Struct:
		s := make(Struct, t.NumFields())
		for i := range s {
			s[i] = zero(t.Field(i).Type())
		}
		return s
	case *types.Tuple:
		if t.Len() == 1 {
			return zero(t.At(0).Type())
		}
		s := make(Tuple, t.Len())
		for i := range s {
			s[i] = zero(t.At(i).Type())
		}
		return s
	case *types.Chan:
		return (*Chan)(nil)
	case *types.Map:
		return (*Map)(nil)
	case *types.Signature:
		return (*Closure)(nil)
	case *types.TypeParam:
		panic("zero of type parameter " + t.String())
	}
	panic(fmt.Sprint("zero: unexpected ", t))
}

// copyVal copies aggregates (value semantics).
func copyVal(v Value) Value {
	switch v := v.(type) {
	case Struct:
		r := make(Struct, len(v))
		for i, x := range v {
			r[i] = copyVal(x)
		}
		return r
	case Array:
		r := make(Array, len(v))
		for i, x := range v {
			r[i] = copyVal(x)
		}
		return r
	case Tuple:
		// tuples are immutable
		return v
	}
	return v
}

func isNilFunc(v Value) bool {
	switch f := v.(type) {
	case *Closure:
		return f == nil
	case *ssa.Function:
		return f == nil
	case *ssa.Builtin:
		return f == nil
	case nil:
		return true
	}
	return false
}

// asTerm asserts a scalar.
func asTerm(v Value) *Term {
	t, ok := v.(*Term)
	if !ok {
		panic(unsupported(fmt.Sprintf("expected scalar term, got %T", v)))
	}
	return t
}

// concInt returns the concrete signed value of a term known to be constant.
func concInt(v Value) (int64, bool) {
	t, ok := v.(*Term)
	if !ok || !t.IsConst() {
		return 0, false
	}
	return t.Signed(), true
}

func describe(v Value) string {
	switch v := v.(type) {
	case *Term:
		return v.String()
	case Str:
		if v.IsConc() {
			return fmt.Sprintf("%q", v.S)
		}
		parts := make([]string, len(v.B))
		for i, b := range v.B {
			parts[i] = b.String()
		}
		return "str[" + strings.Join(parts, ",") + "]"
	case Iface:
		if v.T == nil {
			return "nil-iface"
		}
		return "iface{" + v.T.String() + "," + describe(v.V) + "}"
	case []Value:
		if len(v) > 8 {
			return fmt.Sprintf("slice(len=%d)", len(v))
		}
		parts := make([]string, len(v))
		for i, x := range v {
			parts[i] = describe(x)
		}
		return "[" + strings.Join(parts, ",") + "]"
	case Struct:
		parts := make([]string, len(v))
		for i, x := range v {
			parts[i] = describe(x)
		}
		return "{" + strings.Join(parts, ",") + "}"
	case *Value:
		if v == nil {
			return "nil-ptr"
		}
		return fmt.Sprintf("ptr(%p)", v)
	}
	return fmt.Sprintf("%T", v)
}
