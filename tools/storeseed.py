#!/usr/bin/env python3
# tools/storeseed.py <ID> <change> <needs> <check_result> [suffix, e.g. -2 for a second round] — move a confirmed seeded change from /tmp/seed-<ID> to /verif/seeded/<ID>
import json, os, shutil, sys
id_, change, needs, result = sys.argv[1:5]
round_ = sys.argv[5] if len(sys.argv) > 5 else ""
src, dst = f"/tmp/seed-{id_}", f"/verif/seeded/{id_}{round_}"
os.makedirs(dst, exist_ok=True)
for f in os.listdir(src):
    shutil.copy(os.path.join(src, f), os.path.join(dst, "agent_notes.md" if f == "notes.md" else f))
meta = {
 "property": id_, "change": change, "needs_to_manifest": needs,
 "origin": "independent sub-agent given only the property text and a scratch worktree",
 "confirmed": "tools/seedcheck.sh: demo passes on the original, fails with the change; go build ./... and the touched packages' tests pass with the change",
 "check_result": result,
 "ran": f"tools/seedcheck.sh {id_} /tmp/seed-{id_} /tmp/wt-{id_} <pkgs>  (git apply in /repo, ./check {id_} quick, git checkout -- .)",
}
json.dump(meta, open(os.path.join(dst, "meta.json"), "w"), indent=1)
print("stored", dst)
