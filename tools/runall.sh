#!/bin/sh
# usage: tools/runall.sh [tier] [ids...]  — run checks sequentially, summarise exit codes
TIER=${1:-quick}; shift 2>/dev/null
IDS="$@"
[ -n "$IDS" ] || IDS=$(ls /verif/harness)
mkdir -p /verif/.work/runall
for id in $IDS; do
  s=$(date +%s)
  timeout ${RUNALL_TIMEOUT:-3600} /verif/check $id $TIER > /verif/.work/runall/$id.$TIER.log 2>&1
  rc=$?
  e=$(date +%s)
  echo "$id $TIER exit=$rc $((e-s))s $(grep -c '^VIOLATION' /verif/.work/runall/$id.$TIER.log) violations, $(grep -c '^INCONCLUSIVE' /verif/.work/runall/$id.$TIER.log) inconclusive"
done
