#!/usr/bin/env python3
# Regenerates /verif/MANIFEST.json from tools/manifest_table.json
import json, os
V='/verif'
tab=json.load(open(V+'/tools/manifest_table.json'))
props=[json.loads(l) for l in open(V+'/properties.jsonl')]
ids=[p['id'] for p in props]
checks=[]
for pid in ids:
    if pid in tab['checks']:
        c=tab['checks'][pid]
        checks.append({
          "property_id": pid,
          "quick_cmd": "./check %s quick" % pid,
          "thorough_cmd": "./check %s thorough" % pid,
          "evidence_file": "/verif/evidence/%s.json" % pid,
          "replay_cmd_template": "./check replay {path}",
          "engine": c.get("engine","symgo"),
          "level_claimed": {"category":"model_checking","text":c["text"],"design_ref":"DESIGN.md §6 "+pid},
          "level_note": c["note"],
          "technique": c.get("technique","bounded symbolic execution of go/ssa of /repo + SMT (z3/cvc5), solver models replayed natively"),
        })
na=[{"property_id":pid,"reason":tab['not_applicable'][pid]} for pid in ids if pid not in tab['checks']]
for pid in ids:
    assert pid in tab['checks'] or pid in tab['not_applicable'], pid
m={
 "version":1,
 "setup_cmd":"cd /verif && ./check build && sh ./setup.sh",
 "hooks":{"guard":"verif","enable":"no hooks: harnesses are injected with go/packages and go build overlays (files named zz_verif_*.go under /verif/harness); /repo carries no instrumentation","baseline_off_cmd":"cd /repo && go test -mod=mod -json -vet=off -count=1 -timeout 25m ./...","source_commits":[],"add_only":True},
 "engines":[
  {"name":"symgo","path":"/verif/engine","serves_properties":[p for p in ids if p in tab['checks'] and tab['checks'][p].get('engine','symgo')=='symgo'],"kind_free_text":"path-wise symbolic interpreter over go/ssa of /repo (bit-vector terms; z3 4.8.12 → cvc5 → z3 5.1 portfolio; region merging; worker processes), every solver model replayed natively with go test -overlay before it is reported"},
  {"name":"intenc","path":"/verif/engine/cmd/symgo/intenc.go","serves_properties":["C24"],"kind_free_text":"SSA → mathematical-integer SMT for loop-free integer kernels: one overflow obligation per machine operation + functional obligation; models replayed against the real function and math/big"}
 ],
 "checks":checks,
 "not_applicable":na,
 "notes":"exit codes: 0 = held on everything explored (or only KNOWN-FINDING lines); 1 = VIOLATION (model reproduced natively); 2 = inconclusive / engine error (never a VIOLATION line). Fixed defects are listed in known_findings.txt."
}
json.dump(m,open(V+'/MANIFEST.json','w'),indent=1)
print(len(checks),'checks,',len(na),'not applicable')
