#!/bin/sh
# tools/seedcheck.sh <ID> <seed-dir> <worktree> <test pkgs...> — confirm a seeded change and run the check against it
ID=$1; SEED=$2; WT=$3; shift 3; PKGS="$@"
export GOFLAGS=-mod=mod
DEMO=$(cat $SEED/demo_path.txt | tr -d '\n ')
DEMOPKG=./$(dirname $DEMO)
echo "== confirm in scratch worktree $WT (demo $DEMO)"
cd $WT || exit 2
git checkout -q -- . 2>/dev/null; git clean -fdq 2>/dev/null
OV=/verif/.work/embed-overlay-wt.json
echo "{\"Replace\": {\"$WT/internal/core/VERSION\": \"/verif/embed/VERSION\", \"$WT/internal/servers/hls/hls.min.js\": \"/verif/embed/hls.min.js\"}}" > $OV
cp $SEED/$(basename $DEMO) $WT/$DEMO
echo "-- demo on original:"; go test -count=1 -overlay $OV -run 'Demo|demo|Seed' $DEMOPKG 2>&1 | tail -2
git apply $SEED/patch.diff || { echo "patch does not apply"; exit 2; }
echo "-- build with change:"; go build -overlay $OV ./... 2>&1 | tail -2
echo "-- demo with change:"; go test -count=1 -overlay $OV -run 'Demo|demo|Seed' $DEMOPKG 2>&1 | tail -3
rm -f $WT/$DEMO
echo "-- existing tests with change:"; go test -count=1 -overlay $OV $PKGS 2>&1 | tail -4
git checkout -q -- .
echo "== run check $ID against /repo with the change"
cd /repo && git apply $SEED/patch.diff || { echo "patch does not apply to /repo"; exit 2; }
/verif/check $ID quick > /verif/.work/seed-$ID.log 2>&1; echo "check exit=$?"
grep -E "^VIOLATION|key=|^INCONCLUSIVE|ENGINE" /verif/.work/seed-$ID.log | head -6
git -C /repo checkout -- .
